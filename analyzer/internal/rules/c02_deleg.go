package rules

import (
	"jsverif/internal/core"
)

// c02deleg: per byte, state functions re-dispatch to each other only finitely
// often. The summariser follows `s.step = X; return s.step(s, c)` by inlining;
// a cyclic re-dispatch makes it revisit a block and abort the path, which is
// reported here (together with any other construct it could not summarise).
func c02deleg(R string, pkgs []string, floor int) RuleFunc {
	return func(c *core.Ctx) {
		c.Rule(R, "for every state function and every byte value the per-byte summary terminates without revisiting code: the delegation relation between scanner states (`s.step = X; return s.step(s,c)` and direct calls) is acyclic, so one input byte is handled by finitely many state functions (no hang, no stack overflow inside the scanner)")
		c.Floor(R, floor)
		for _, pk := range pkgs {
			m := buildScanModel(c, pk)
			und := map[string]string{}
			for _, n := range m.names {
				for b := 0; b < 256; b++ {
					for _, p := range m.rows[n][b].paths {
						if p.kind == "abort" && und[n] == "" {
							und[n] = core.F("byte %q: %s", rune(b), p.errCtx)
						}
					}
				}
			}
			for _, n := range m.names {
				key := pk + "." + n
				pos := c.P.Pos(m.states[n].Pos())
				if w, bad := und[n]; bad {
					c.Bad(R, key, pos, "state "+n+" summarised for all 256 bytes", "the summary does not terminate / cannot be completed ("+w+"): cyclic delegation between states or a loop inside a state function")
				} else {
					c.OK(R, key, pos, "state "+n+" summarised for all 256 bytes without revisiting code")
				}
			}
		}
	}
}
