package rules

import (
	"fmt"
	"go/ast"
	"go/types"
	"os"
	"sort"
	"strings"

	"golang.org/x/tools/go/ssa"

	"jsverif/internal/core"
)

// apiPackages: packages whose exported functions/methods are public entry points.
var apiPackages = []string{"", "notations/jschema", "rules/enum", "notations/regex", "formats/json", "json", "openapi", "kit"}

// entryPoints enumerates exported functions and exported methods of exported
// types of the API packages.
func entryPoints(c *core.Ctx) []*ssa.Function {
	var out []*ssa.Function
	seen := map[*ssa.Function]bool{}
	for _, rel := range apiPackages {
		sp := c.P.SSAPkg(rel)
		if sp == nil {
			continue
		}
		for _, m := range sp.Members {
			switch x := m.(type) {
			case *ssa.Function:
				if x.Object() != nil && x.Object().Exported() && x.Blocks != nil && !seen[x] {
					seen[x] = true
					out = append(out, x)
				}
			case *ssa.Type:
				if !x.Object().Exported() {
					continue
				}
				for _, t := range []types.Type{x.Type(), types.NewPointer(x.Type())} {
					ms := c.P.SSA.MethodSets.MethodSet(t)
					for i := 0; i < ms.Len(); i++ {
						if !ms.At(i).Obj().Exported() {
							continue
						}
						fo, _ := ms.At(i).Obj().(*types.Func)
						f := c.P.SSA.FuncValue(fo)
						if f != nil && f.Blocks != nil && !seen[f] && c.P.FuncInScope(f) {
							seen[f] = true
							out = append(out, f)
						}
					}
				}
			}
		}
	}
	sort.Slice(out, func(i, j int) bool { return out[i].String() < out[j].String() })
	return out
}

// escapeTable: explicit panic sites that are reachable from a public entry point
// without an intervening catcher, and why they cannot fire (or are accepted).
// Key: function name (ordinal suffix #n added for further sites in the function).
var escapeTable = map[string]string{
	"bytes.NewBytes":         "assertion after a type switch that covers the whole type set of the ByteKeeper constraint (string | []byte | Bytes)",
	"bytes.NewBytes[[]byte]": "see bytes.NewBytes",
	"bytes.NewBytes[string]": "see bytes.NewBytes",
	"bytes.NewBytes[github.com/jsightapi/jsight-schema-core/bytes.Bytes]": "see bytes.NewBytes",
	"bytes.Int":                                 "assertion after a type switch over {Index, uint, int}; every call site passes one of these static types (rule C02.intarg)",
	"errs.f":                                    "both panics fire only on a code without format or an arity mismatch; excluded for every call site by rule C16.fmt",
	"errs.f#2":                                  "see errs.f",
	"(json.Number).not":                         "argument is the result of cmpAbs/cmpInt/cmpFra, which return only -1, 0, 1 (rule C13.pred decodes those tables)",
	"(json.Number).ToFloat":                     "public helper that is not among the listed operations and is not called by schema processing; it panics by contract when the value does not fit a float64 (|x| > MaxFloat64, e.g. 1e400)",
	"json.NewJsonType":                          "exported helper that panics by contract on an unknown name; callers inside the module run under the loader's recover",
	"(json.GuessData).LiteralJsonType":          "on the schema path the panic is an error value converted by the recovering callers; on the enum-rule path (no recover) it is unreachable because the enum scanner hands only well-formed JSON scalars to json.Guess - that invariant is not trusted, it is the product check C02.inv.enumlit (= C17.grammar) run as part of this property",
	"(*kit.JSchemaError).preparation":           "file is set by NewJSchemaError, the only constructor; a zero JSchemaError is never returned by the module",
	"(*notations/jschema.JSchema).BuildASTNode": "exported for internal use by load(), which runs under the recover of LoadOnce; panics with the error value returned by ASTNode()",
	"notations/jschema/ischema.collectASTRules": "err is the result of Constraints.Each whose callback always returns nil",
	"(notations/jschema/ischema/constraint.enumItemValue).String":             "encoding/json.Marshal of a Go string cannot fail",
	"openapi/internal.ToJSONString":                                           "encoding/json.Marshal of a Go string cannot fail",
	"(notations/jschema/ischema/constraint.AdditionalProperties).String":      "default branch of a switch over all four declared AdditionalPropertiesMode constants",
	"(*internal/ds.Stack[lexeme.LexEvent]).Peek[lexeme.LexEvent]":             "scanner stack discipline (every Peek/Pop follows a Push on the same path); not decided statically here",
	"(*internal/ds.Stack[lexeme.LexEvent]).Get[lexeme.LexEvent]":              "only called as Get(length-2) under length >= 2 checks in stateEndValue",
	"(*internal/ds.Stack[rules/enum.stepFunc]).Peek[rules/enum.stepFunc]":     "returnToStep push/pop discipline of the enum scanner; not decided statically here",
	"(*internal/ds.Stack[formats/json.stepFunc]).Peek[formats/json.stepFunc]": "returnToStep push/pop discipline; not decided statically here",
	// OpenAPI conversion: `default: panic(ErrRuntimeFailure)` after switches over the token/schema type of AST nodes of an accepted schema
	"openapi.NewSchemaObject":                                   "type switch over the two Schema implementations of the module (JSchema, RSchema)",
	"(openapi.dereference).schema":                              "type switch over the two Schema implementations of the module",
	"(openapi.dereference).userType":                            "user type missing: Check() of an accepted schema already proved every referenced type exists",
	"(openapi.ObjectInfo).allOf":                                "allOf rule value is a reference or an array of references (loader rejects anything else)",
	"(openapi.SchemaInfo).Type":                                 "TokenType of an AST node of an accepted schema is one of the seven constants, all handled",
	"(*openapi/internal/jsoac.AllOf).append":                    "allOf rule value is a reference or an array of references",
	"openapi/internal.RuleToASTNode":                            "items of an `or` rule are strings, references or rule-set objects (loader rejects anything else)",
	"openapi/internal/jsoac.newBasicAdditionalProperties":       "additionalProperties value is a boolean or a string (loader rejects anything else)",
	"(openapi/internal/jsoac.AdditionalProperties).MarshalJSON": "default branch of a switch over all declared additionalPropertiesMode constants",
	"openapi/internal/jsoac.oadTypeFromASTNode":                 "called for primitive/array/object nodes only (newNode dispatch), never for references",
	"openapi/internal/rsoac.getASTNode":                         "RSchema.GetAST fails only for an invalid regex schema; conversion is defined for accepted schemas",
	"openapi/internal/jsoac.makeAdditionalAnyJSONObjects":       "see known finding on oadTypeFromSchemaType: same domain question for `or` items inside additionalProperties (enum/mixed/comment are rejected earlier for or-items)",
}

func c02escape(c *core.Ctx) {
	const R = "C02.escape"
	c.Rule(R, "for every public entry point (exported functions/methods of the API packages): an explicit panic site reachable without passing through a function whose deferred recover swallows the panic (converters that always re-panic do not count) must be tabled with the reason it cannot fire; any other such site lets a panic escape to the caller. Removing a recover or adding a panic on an unprotected path is reported per site with the call chain")
	entries := entryPoints(c)
	c.Floor(R, 100)
	sites := c.P.PanicSites()
	byFn := map[*ssa.Function][]core.PanicSite{}
	for _, s := range sites {
		byFn[s.Fn] = append(byFn[s.Fn], s)
	}
	type hit struct {
		site  core.PanicSite
		entry *ssa.Function
		chain string
	}
	hits := map[*ssa.Panic]hit{}
	for _, e := range entries {
		un, pred := c.P.Unprotected([]*ssa.Function{e})
		n := 0
		for f := range un {
			for _, s := range byFn[f] {
				n++
				ch := core.Chain(pred, f)
				if old, ok := hits[s.Instr]; !ok || len(ch) < len(old.chain) {
					hits[s.Instr] = hit{s, e, ch}
				}
			}
		}
		kind := "no explicit panic reachable outside a catcher"
		if c.P.FuncRecoverKind(e) == core.Catcher {
			kind = "entry recovers (catcher defer)"
		}
		c.OKd(R, "entry:"+core.FuncName(e), c.P.Pos(e.Pos()), "entry "+core.FuncName(e), core.F("%s; %d unprotected panic sites handled below", kind, n))
	}
	var hs []hit
	for _, h := range hits {
		hs = append(hs, h)
	}
	sort.Slice(hs, func(i, j int) bool {
		a, b := core.FuncName(hs[i].site.Fn), core.FuncName(hs[j].site.Fn)
		if a != b {
			return a < b
		}
		return hs[i].site.Instr.Pos() < hs[j].site.Instr.Pos()
	})
	seenFn := map[string]int{}
	for _, h := range hs {
		fn := core.FuncName(h.site.Fn)
		seenFn[fn]++
		key := fn
		if seenFn[fn] > 1 {
			key = core.F("%s#%d", fn, seenFn[fn])
		}
		pos := c.P.Pos(h.site.Instr.Pos())
		what := "panic in " + fn + " reachable from entry " + core.FuncName(h.entry) + " without a catcher"
		if os.Getenv("JSV_DUMP_PANIC_ORIGINS") != "" {
			fmt.Fprintf(os.Stderr, "ORIGIN\t%s\t%s\n", key, panicOrigin(h.site))
		}
		if strings.HasSuffix(fn, ").String") && isStringerPanic(h.site) {
			c.Tabled(R, key, pos, what, "generated stringer range assertion (rule C02.ptype checks the guard covers all declared constants)")
			continue
		}
		if r, ok := escapeTable[c.P.PinnedName(key)]; ok {
			c.Tabled(R, key, pos, what, r)
			continue
		}
		// the same method after its receiver changed between value and pointer
		alt := ""
		switch {
		case strings.HasPrefix(key, "(*"):
			alt = "(" + key[2:]
		case strings.HasPrefix(key, "("):
			alt = "(*" + key[1:]
		}
		if r, ok := escapeTable[alt]; ok && alt != "" && c.P.FindDecl(strings.SplitN(alt, "#", 2)[0]) == nil {
			c.Tabled(R, key, pos, what, r+" (tabled as "+alt+", receiver kind changed)")
			continue
		}
		// the same panic after its statements were moved into / out of a helper of the package:
		// identified by what is thrown (the error of which call, or which error code)
		k2 := panicOrigin(h.site)
		if os.Getenv("JSV_DUMP_PANIC_ORIGINS") != "" {
			fmt.Fprintf(os.Stderr, "ORIGIN\t%s\t%s\n", key, k2)
		}
		if pe, ok := escapeOrigins[k2]; ok && k2 != "" {
			if r, ok := escapeTable[pe]; ok {
				c.Tabled(R, key, pos, what, r+" (the panic tabled for "+pe+", moved)")
				continue
			}
		}
		c.Bad(R, key, pos, what, "a Go panic can escape to the caller; chain: "+h.chain)
	}
	c.Extra["C02.escape.entries"] = len(entries)
}

func isStringerPanic(s core.PanicSite) bool {
	b, ok := s.ArgType.Underlying().(*types.Basic)
	return ok && b.Info()&types.IsString != 0
}

// c02ptype: every panic value must be an error (panics.Handle re-panics anything else).
func c02ptype(c *core.Ctx) {
	const R = "C02.ptype"
	c.Rule(R, "the operand of every explicit panic has a static type that implements `error` (or is an interface all of whose module implementations do, or a value re-panicked from recover()); panics.Handle and Document.nextLexeme convert only error values and re-panic anything else, so a non-error panic value escapes every recover in the module")
	c.Floor(R, 250)
	kitError := c.P.NamedType("kit", "Error")
	n := map[string]int{}
	for _, s := range c.P.PanicSites() {
		fn := core.FuncName(s.Fn)
		n[fn]++
		key := core.F("%s#%d", fn, n[fn])
		pos := c.P.Pos(s.Instr.Pos())
		t := s.ArgType
		what := "panic(" + core.Rel(t.String()) + ") in " + fn
		switch {
		case core.IsErrorType(t):
			c.OK(R, key, pos, what)
		case kitError != nil && types.Identical(t, kitError):
			// interface kit.Error: every implementation in the module must be an error
			ok := true
			for _, pk := range c.P.ScopePkgs() {
				sc := pk.Types.Scope()
				for _, nm := range sc.Names() {
					tn, isT := sc.Lookup(nm).(*types.TypeName)
					if !isT {
						continue
					}
					for _, tt := range []types.Type{tn.Type(), types.NewPointer(tn.Type())} {
						if _, isI := tt.Underlying().(*types.Interface); isI {
							continue
						}
						if types.Implements(tt, kitError.Underlying().(*types.Interface)) && !core.IsErrorType(tt) {
							ok = false
						}
					}
				}
			}
			c.Check(ok, R, key, pos, what+" (kit.Error: all implementations are errors)", "an implementation of kit.Error does not implement error")
		case fn == "panics.Handle":
			c.Tabled(R, key, pos, what, "re-panic of the recovered value handed in by the deferred closure when it is not an error: exactly the escape this rule excludes for every other site")
		case isRecoverValue(s.Arg):
			c.OKd(R, key, pos, what, "re-panic of a recovered value (its type is the type of the original panic, itself an obligation)")
		case isStringerPanic(s) && strings.HasSuffix(fn, ").String"):
			// generated stringer: guard must cover all declared constants => unreachable
			if stringerGuardCoversAll(c, s) {
				c.Tabled(R, key, pos, what, "generated stringer: the panic is dominated by `v >= len(index)-1`, false for every declared constant of the type")
			} else {
				c.Bad(R, key, pos, what, "string panic value; the stringer's index table does not cover all declared constants, so String() of a declared constant panics with a non-error value that no recover converts")
			}
		default:
			c.Bad(R, key, pos, what, "panic value is not an error: panics.Handle / nextLexeme re-panic non-error values, so this escapes every entry point")
		}
	}
}

func isRecoverValue(v ssa.Value) bool {
	for i := 0; i < 6; i++ {
		switch x := v.(type) {
		case *ssa.Call:
			if b, ok := x.Call.Value.(*ssa.Builtin); ok && b.Name() == "recover" {
				return true
			}
			return false
		case *ssa.MakeInterface:
			v = x.X
		case *ssa.ChangeInterface:
			v = x.X
		case *ssa.TypeAssert:
			v = x.X
		case *ssa.Phi:
			if len(x.Edges) == 0 {
				return false
			}
			v = x.Edges[0]
		default:
			return false
		}
	}
	return false
}

// stringerGuardCoversAll: in a generated String() the number of entries of the
// _T_index array minus one must be >= number of declared constants (values 0..n-1).
func stringerGuardCoversAll(c *core.Ctx, s core.PanicSite) bool {
	recv := s.Fn.Signature.Recv()
	if recv == nil {
		return false
	}
	named, ok := recv.Type().(*types.Named)
	if !ok {
		return false
	}
	pkgPath := named.Obj().Pkg().Path()
	pk := c.P.ByPath[pkgPath]
	if pk == nil {
		return false
	}
	consts := core.ConstsOfType(pk, named)
	// find _<T>_index
	init := core.PkgVarInit(pk, "_"+named.Obj().Name()+"_index")
	if init == nil {
		return false
	}
	cl, ok := ast.Unparen(init).(*ast.CompositeLit)
	if !ok {
		return false
	}
	maxV := int64(-1)
	for _, k := range consts {
		if v, ok := constantInt64(k.Val); ok && v > maxV {
			maxV = v
		}
	}
	return int64(len(cl.Elts)-1) > maxV
}

// c02intarg: the `any`-typed index parameters of package bytes accept exactly
// int, uint and bytes.Index; anything else reaches the assertion panic in bytes.Int.
func c02intarg(c *core.Ctx) {
	const R = "C02.intarg"
	c.Rule(R, "every argument passed to an `any`-typed index parameter of package bytes (Bytes.Byte/Sub/SubLow/SubHigh, bytes.Int) has static type int, uint or bytes.Index; any other type reaches the ErrRuntimeFailure assertion in bytes.Int")
	c.Floor(R, 40)
	targets := map[string]bool{"(bytes.Bytes).Byte": true, "(bytes.Bytes).Sub": true, "(bytes.Bytes).SubLow": true, "(bytes.Bytes).SubHigh": true, "bytes.Int": true}
	n := map[string]int{}
	for _, cs := range c.P.Calls() {
		callee := core.FullName(core.Callee(cs.Pkg, cs.Call))
		if !targets[callee] {
			continue
		}
		fn := core.DeclName(cs.Pkg, cs.Decl)
		for _, a := range cs.Call.Args {
			t := core.TypeOf(cs.Pkg, a)
			n[fn]++
			key := core.F("%s:%s#%d", fn, callee, n[fn])
			pos := c.P.Pos(a.Pos())
			what := core.F("%s(%s) with %s", callee, core.ExprStr(a), typeStr(t))
			ok := false
			if t != nil {
				switch tt := types.Unalias(t).(type) {
				case *types.Basic:
					ok = tt.Kind() == types.Int || tt.Kind() == types.Uint || tt.Kind() == types.UntypedInt
				case *types.Named:
					ok = tt.Obj().Name() == "Index" && tt.Obj().Pkg().Path() == core.Module+"/bytes"
				case *types.Interface:
					// forwarding an `any` parameter inside package bytes itself
					ok = strings.HasPrefix(fn, "(bytes.Bytes).") || fn == "bytes.Int"
				}
			}
			c.Check(ok, R, key, pos, what, "argument type is not int/uint/bytes.Index: bytes.Int panics with ErrRuntimeFailure at run time")
		}
	}
}

func typeStr(t types.Type) string {
	if t == nil {
		return "?"
	}
	return core.Rel(t.String())
}

// panicOrigin names what a panic throws, independent of the function it stands in: the package and
// either the call whose error result is thrown, or the text of the thrown expression's constructor.
func panicOrigin(s core.PanicSite) string {
	pkg := core.FuncPkgPath(s.Fn)
	var src func(v ssa.Value, depth int) string
	src = func(v ssa.Value, depth int) string {
		if depth > 6 {
			return ""
		}
		switch x := v.(type) {
		case *ssa.MakeInterface:
			return src(x.X, depth+1)
		case *ssa.ChangeInterface:
			return src(x.X, depth+1)
		case *ssa.Extract:
			if call, ok := x.Tuple.(*ssa.Call); ok {
				if sc := call.Call.StaticCallee(); sc != nil {
					return "result of " + core.FuncName(sc)
				}
				if call.Call.IsInvoke() {
					return "result of ." + call.Call.Method.Name()
				}
			}
		case *ssa.Call:
			if sc := x.Call.StaticCallee(); sc != nil {
				// an error constructor: Code.F(...) - name the code
				if len(x.Call.Args) > 0 {
					if c, ok := x.Call.Args[0].(*ssa.Const); ok && c.Value != nil {
						return core.FuncName(sc) + "(" + c.Value.ExactString() + ")"
					}
				}
				return "result of " + core.FuncName(sc)
			}
		case *ssa.Phi:
			for _, e := range x.Edges {
				if s := src(e, depth+1); s != "" {
					return s
				}
			}
		case *ssa.UnOp:
			if al, ok := x.X.(*ssa.Alloc); ok {
				for _, ref := range *al.Referrers() {
					if st, ok := ref.(*ssa.Store); ok && st.Addr == al {
						if s := src(st.Val, depth+1); s != "" {
							return s
						}
					}
				}
			}
		}
		return ""
	}
	o := src(s.Instr.X, 0)
	if o == "" {
		return ""
	}
	return pkg + ": " + o
}

// escapeOrigins: panics that throw the error of one particular call are recognised by that call when
// the statement moves between functions of the package (helper extracted or inlined).
var escapeOrigins = map[string]string{
	"github.com/jsightapi/jsight-schema-core/openapi/internal/rsoac: result of (*notations/regex.RSchema).GetAST":                "openapi/internal/rsoac.getASTNode",
	"github.com/jsightapi/jsight-schema-core/notations/jschema: result of .ASTNode":                                              "(*notations/jschema.JSchema).BuildASTNode",
	"github.com/jsightapi/jsight-schema-core/notations/jschema/ischema: result of (*notations/jschema/ischema.Constraints).Each": "notations/jschema/ischema.collectASTRules",
	"github.com/jsightapi/jsight-schema-core/openapi/internal: result of encoding/json.Marshal":                                  "openapi/internal.ToJSONString",
}
