package rules

import (
	"fmt"
	"go/ast"
	"go/constant"
	"go/token"
	"go/types"
	"golang.org/x/tools/go/packages"
	"os"
	"strings"

	"golang.org/x/tools/go/ssa"

	"jsverif/internal/core"
)

// compileOrderRule: the link check runs before the recursion check, inside the once, under a recover.
func compileOrderRule(R string) RuleFunc {
	return func(c *core.Ctx) {
		c.Rule(R, "JSchema.Compile: (order) inside the closure of CompileOnce the statements run in the order load, CompileAllOf, AddUnnamedTypes, CheckRootSchema, CheckRecursion - the `type not found` diagnostic of CheckRootSchema must not be pre-empted by the recursion check of a registered type; (recover) the deferred panics.Handle(recover(), err) sits INSIDE that closure, so an error raised as a panic by the compile phase is the closure's result and is stored by the once: with the recover in the outer function the first call reports the error and every later call on the same object returns nil")
		c.Floor(R, 2)
		d := c.P.FindDecl("(*notations/jschema.JSchema).Compile")
		if d == nil {
			c.Unresolved(R, "(*notations/jschema.JSchema).Compile")
			return
		}
		var body *ast.BlockStmt
		bpk := d.Pkg
		ast.Inspect(d.Decl.Body, func(n ast.Node) bool {
			if call, ok := n.(*ast.CallExpr); ok && strings.HasSuffix(core.ExprStr(call.Fun), "CompileOnce.Do") && len(call.Args) == 1 {
				body, bpk = onceBody(c, d.Pkg, call.Args[0])
			}
			return true
		})
		if body == nil {
			c.Bad(R, "Compile:closure", c.P.Pos(d.Decl.Pos()), "function handed to CompileOnce.Do", "undecided: neither a function literal, a literal that only calls one method, nor a method value")
			return
		}
		pos := c.P.Pos(body.Pos())
		order := []string{"load", "CompileAllOf", "AddUnnamedTypes", "CheckRootSchema", "CheckRecursion"}
		at := map[string]token.Pos{}
		ast.Inspect(body, func(n ast.Node) bool {
			if x, ok := n.(*ast.CallExpr); ok {
				f := core.ExprStr(x.Fun)
				for _, o := range order {
					if strings.HasSuffix(f, "."+o) {
						if _, seen := at[o]; !seen {
							at[o] = x.Pos()
						}
					}
				}
			}
			return true
		})
		recoverInside := deferredRecoverIn(c, bpk, body)
		okOrder := true
		missing := ""
		for i := range order {
			if _, ok := at[order[i]]; !ok {
				okOrder, missing = false, order[i]
				continue
			}
			if i > 0 && at[order[i-1]] >= at[order[i]] {
				okOrder = false
				missing = order[i-1] + " after " + order[i]
			}
		}
		c.Check(okOrder, R, "Compile:order", pos, "compile steps run in the order "+strings.Join(order, ", "), "the order of the compile steps changed ("+missing+"): a project with a missing type AND a recursive registered type is reported as a recursion instead of `type not found`")
		c.Check(recoverInside, R, "Compile:recover-inside-once", pos, "the recover of the compile phase is deferred inside the once closure", "a panic of the compile phase unwinds through the once: the once is marked done without a stored error, so the second Check()/GetAST()/Example() on the same object answers as if the schema were valid")
	}
}

// addChildOrderRule: the key is registered before the child is appended.
func addChildOrderRule(R string) RuleFunc {
	return func(c *core.Ctx) {
		c.Rule(R, "in every method of ObjectNode that both registers a key (AddKey / keys.Set) and appends a child (addChild / append to children), the key is registered FIRST: the key record takes Index = len(children) at that moment, i.e. the position the child is about to get. Appending first shifts the index of every inherited property by one (Child(key) returns the neighbour or runs out of range)")
		c.Floor(R, 1)
		n := 0
		for _, d := range c.P.FuncDecls() {
			if core.Rel(d.Pkg.PkgPath) != "notations/jschema/ischema" || d.Decl.Body == nil || d.Decl.Recv == nil {
				continue
			}
			fn := core.DeclName(d.Pkg, d.Decl)
			if !strings.Contains(fn, "ObjectNode)") {
				continue
			}
			keyPos, childPos := token.NoPos, token.NoPos
			for _, st := range d.Decl.Body.List { // straight-line bodies only
				if _, isExpr := st.(*ast.ExprStmt); !isExpr {
					continue
				}
				ast.Inspect(st, func(m ast.Node) bool {
					if call, ok := m.(*ast.CallExpr); ok {
						f := core.ExprStr(call.Fun)
						if (strings.HasSuffix(f, ".AddKey") || strings.HasSuffix(f, ".keys.Set")) && keyPos == token.NoPos {
							keyPos = call.Pos()
						}
						if strings.HasSuffix(f, ".addChild") && childPos == token.NoPos {
							childPos = call.Pos()
						}
					}
					return true
				})
			}
			if keyPos == token.NoPos || childPos == token.NoPos {
				continue
			}
			n++
			c.Check(keyPos < childPos, R, fn, c.P.Pos(d.Decl.Pos()), fn+": key registered before the child is appended", "the child is appended before its key is registered: the recorded Index is one too high")
		}
		if n == 0 {
			c.Bad(R, "AddChild", "-", "ObjectNode methods that add key and child", "undecided: none found")
		}
	}
}

// oncePanicRule: a once closure that can panic recovers inside.
func oncePanicRule(R string) RuleFunc {
	return func(c *core.Ctx) {
		c.Rule(R, "every closure handed to ErrOnce.Do / ErrOnceWithValue.Do whose body can reach an explicit panic of the module (the load and compile phases raise their diagnostics as panics) defers a recover itself: sync.Once marks the once as done even when the function panics, so an error that unwinds THROUGH Do is reported to the first caller only and every later call sees the zero result")
		c.Floor(R, 3)
		oc := onceClosures(c)
		sites := c.P.PanicSites()
		var fs []*ssa.Function
		for f := range oc {
			fs = append(fs, f)
		}
		sortFuncs(fs)
		for _, f := range fs {
			if !c.P.FuncInScope(f) || strings.Contains(core.FuncName(f), "internal/sync.") {
				continue
			}
			// explicit panic sites reachable from the closure without passing a function that recovers,
			// other than the assertion panics tabled as unreachable by C02.escape
			may := false
			reach := c.P.Reach([]*ssa.Function{f}, func(g *ssa.Function) bool { return g != f && (hasDeferredRecover(g) || !c.P.FuncInModule(g)) })
			for _, site := range sites {
				if !reach[site.Fn] || (site.Fn != f && hasDeferredRecover(site.Fn)) {
					continue
				}
				name := strings.Split(core.FuncName(site.Fn), "[")[0]
				tabled := false
				for k := range escapeTable {
					if strings.Split(strings.Split(k, "#")[0], "[")[0] == name {
						tabled = true
					}
				}
				if !tabled {
					may = true
				}
			}
			if !may {
				c.OKd(R, core.FuncName(f), c.P.Pos(f.Pos()), "once closure "+core.FuncName(f), "cannot reach an explicit panic")
				continue
			}
			has := hasDeferredRecover(f)
			if r, ok := map[string]string{
				"notations/jschema/ischema.VirtualNodeForAny$1": "builds the singleton node from constant text (`\"\" // {type: \"any\"}`) with one constraint on a fresh node: the panics of AddConstraint/NewType (duplicate rule, invalid type name) cannot fire on these constants",
			}[core.FuncName(f)]; ok && !has {
				c.Tabled(R, core.FuncName(f), c.P.Pos(f.Pos()), "once closure "+core.FuncName(f), r)
				continue
			}
			c.Check(has, R, core.FuncName(f), c.P.Pos(f.Pos()), "once closure "+core.FuncName(f)+" recovers the panics of its body itself", "the closure can panic and has no deferred recover: the diagnostic unwinds through once.Do and is not stored")
		}
	}
}

// ctorOrderRule: options are applied before the first scanner is made.
func ctorOrderRule(R string) RuleFunc {
	return func(c *core.Ctx) {
		c.Rule(R, "formats/json.FromFile applies the options (the loop over oo) BEFORE the first d.rewind(): rewind is what creates the scanner and copies allowTrailingNonSpaceCharacters into it, so with the order swapped the lexeme stream of a fresh document ignores the option while the same document after Len()/Check() honours it")
		c.Floor(R, 1)
		d := c.P.FindDecl("formats/json.FromFile")
		if d == nil {
			c.Unresolved(R, "formats/json.FromFile")
			return
		}
		loop, rew := token.NoPos, token.NoPos
		for _, st := range d.Decl.Body.List {
			if rs, ok := st.(*ast.RangeStmt); ok && core.ExprStr(rs.X) == "oo" {
				loop = rs.Pos()
			}
			if es, ok := st.(*ast.ExprStmt); ok && core.ExprStr(es.X) == "d.rewind()" && rew == token.NoPos {
				rew = es.Pos()
			}
		}
		c.Check(loop != token.NoPos && rew != token.NoPos && loop < rew, R, "FromFile:options-before-rewind", c.P.Pos(d.Decl.Pos()), "FromFile applies the options before the first rewind", "the first scanner is created before the options are applied")
	}
}

// mapStoreRule: Map stores a value only after the callback succeeded.
func mapStoreRule(R string) RuleFunc {
	return func(c *core.Ctx) {
		c.Rule(R, "in Map() of the generated ordered containers the store `m.data[k] = v` follows the test of the callback's error (the value comes from a variable assigned together with err, and an `if err != nil { return err }` stands between the call and the store): a failing callback leaves the entry untouched. Also: the key of MarshalJSON is written with encoding/json, never with a %q verb")
		c.Floor(R, 3)
		n := 0
		for _, d := range c.P.FuncDecls() {
			if d.Decl.Recv == nil || d.Decl.Body == nil {
				continue
			}
			fn := core.DeclName(d.Pkg, d.Decl)
			isContainer := strings.Contains(fn, "RuleASTNodes)") || strings.Contains(fn, "ASTNodes)") || strings.Contains(fn, "ischema.Constraints)")
			if !isContainer {
				continue
			}
			switch d.Decl.Name.Name {
			case "Map":
				n++
				ok := false
				bad := ""
				ast.Inspect(d.Decl.Body, func(m ast.Node) bool {
					blk, isB := m.(*ast.BlockStmt)
					if !isB {
						return true
					}
					errChecked := false
					for _, st := range blk.List {
						if ifs, isIf := st.(*ast.IfStmt); isIf {
							if core.ExprStr(ifs.Cond) == "err != nil" && ifs.Init == nil {
								errChecked = true
							}
							if ifs.Init != nil && strings.Contains(core.ExprStr0(ifs.Init), ".data[") {
								bad = "the store is part of the if-initialiser: it happens before the error is tested"
							}
						}
						if as, isA := st.(*ast.AssignStmt); isA && len(as.Lhs) >= 1 {
							for _, l := range as.Lhs {
								if ix, isI := l.(*ast.IndexExpr); isI && strings.HasSuffix(core.ExprStr(ix.X), ".data") {
									if errChecked {
										ok = true
									} else {
										bad = "store to data[k] before `if err != nil`"
									}
								}
							}
						}
					}
					return true
				})
				c.Check(ok && bad == "", R, fn, c.P.Pos(d.Decl.Pos()), fn+" stores the new value only after the callback's error was tested", "a failing callback still overwrites the entry: "+bad)
			case "MarshalJSON":
				n++
				bad := ""
				ast.Inspect(d.Decl.Body, func(m ast.Node) bool {
					if call, ok := m.(*ast.CallExpr); ok && strings.HasPrefix(core.FullName(core.Callee(d.Pkg, call)), "fmt.") {
						for _, a := range call.Args {
							if v := core.ConstOf(d.Pkg, a); v != nil && v.Kind() == constant.String && (strings.Contains(constant.StringVal(v), "%q") || strings.Contains(constant.StringVal(v), "%#v")) {
								bad = core.ExprStr(a)
							}
						}
					}
					return true
				})
				c.Check(bad == "", R, fn+":key", c.P.Pos(d.Decl.Pos()), fn+" writes keys with the JSON encoder", "keys are written with the Go verb "+bad+": control characters, DEL and invalid UTF-8 are escaped the Go way and the output is not JSON")
			}
		}
		if n == 0 {
			c.Bad(R, "containers", "-", "Map/MarshalJSON of the generated containers", "undecided: none found")
		}
	}
}

func sortFuncs(fs []*ssa.Function) {
	for i := 1; i < len(fs); i++ {
		for j := i; j > 0 && fs[j].String() < fs[j-1].String(); j-- {
			fs[j], fs[j-1] = fs[j-1], fs[j]
		}
	}
}

// hasDeferredRecover: the function defers a closure / function that calls recover().
func hasDeferredRecover(f *ssa.Function) bool {
	for _, b := range f.Blocks {
		for _, in := range b.Instrs {
			d, ok := in.(*ssa.Defer)
			if !ok {
				continue
			}
			var fn *ssa.Function
			if cl, ok := d.Call.Value.(*ssa.MakeClosure); ok {
				fn, _ = cl.Fn.(*ssa.Function)
			} else if g, ok := d.Call.Value.(*ssa.Function); ok {
				fn = g
			}
			if fn == nil {
				continue
			}
			for _, bb := range fn.Blocks {
				for _, i2 := range bb.Instrs {
					if call, ok := i2.(*ssa.Call); ok {
						if bi, ok := call.Call.Value.(*ssa.Builtin); ok && bi.Name() == "recover" {
							return true
						}
					}
				}
			}
		}
	}
	return false
}

// checkedValueRule: a checker validates the value it is handed.
func checkedValueRule(R string) RuleFunc {
	return func(c *core.Ctx) {
		c.Rule(R, "every call of ValidateLiteralValue in the checker package validates a value derived from a PARAMETER of the calling function (the lexeme of the example being checked), never the value stored in the checker's own node (`c.node.Value()`): a type's rules are applied to whatever example refers to the type, and the type's own example trivially satisfies them")
		c.Floor(R, 2)
		n := 0
		for _, cs := range c.P.Calls() {
			if core.Rel(cs.Pkg.PkgPath) != "notations/jschema/checker" || core.FullName(core.Callee(cs.Pkg, cs.Call)) != "notations/jschema/checker.ValidateLiteralValue" || len(cs.Call.Args) != 2 || cs.Decl == nil {
				continue
			}
			n++
			fn := core.DeclName(cs.Pkg, cs.Decl)
			arg := core.ExprStr(cs.Call.Args[1])
			fromParam := false
			if cs.Decl.Type.Params != nil {
				for _, f := range cs.Decl.Type.Params.List {
					for _, nm := range f.Names {
						if strings.HasPrefix(arg, nm.Name+".") || arg == nm.Name {
							fromParam = true
						}
					}
				}
			}
			c.Check(fromParam, R, core.F("%s:ValidateLiteralValue#%d", fn, n), c.P.Pos(cs.Call.Pos()), "ValidateLiteralValue(…, "+arg+") in "+fn, "the validated value is not taken from the function's parameter: the rule-set is applied to the type's own example instead of the example that refers to it")
		}
	}
}

// keyEncoderRule: decoded keys go through encoding/json on their way into an example.
func keyEncoderRule(R string) RuleFunc {
	return func(c *core.Ctx) {
		c.Rule(R, "exampleBuilder.buildObjectKey encodes an ordinary (non-shortcut) key with encoding/json.Marshal(k.Key) and returns a slice of that result: no hand-written escaper (a loop over the runes that appends byte(r) truncates every non-ASCII character to one byte, so `{\"é\":1}` yields an example that is neither UTF-8 nor JSON)")
		c.Floor(R, 1)
		d := c.P.FindDecl("(*notations/jschema.exampleBuilder).buildObjectKey")
		if d == nil {
			c.Unresolved(R, "(*notations/jschema.exampleBuilder).buildObjectKey")
			return
		}
		marshalVar, retOK, loop := "", false, false
		ast.Inspect(d.Decl.Body, func(n ast.Node) bool {
			ifs, ok := n.(*ast.IfStmt)
			if !ok || !strings.Contains(core.ExprStr(ifs.Cond), "IsShortcut") {
				return true
			}
			ast.Inspect(ifs.Body, func(m ast.Node) bool {
				switch x := m.(type) {
				case *ast.AssignStmt:
					if len(x.Rhs) == 1 {
						if call, ok := x.Rhs[0].(*ast.CallExpr); ok && core.FullName(core.Callee(d.Pkg, call)) == "encoding/json.Marshal" && len(call.Args) == 1 && strings.HasSuffix(core.ExprStr(call.Args[0]), ".Key") {
							marshalVar = core.ExprStr(x.Lhs[0])
						}
					}
				case *ast.RangeStmt, *ast.ForStmt:
					loop = true
				case *ast.ReturnStmt:
					if len(x.Results) == 2 && marshalVar != "" && strings.HasPrefix(core.ExprStr(x.Results[0]), marshalVar+"[") && core.ExprStr(x.Results[1]) == "nil" {
						retOK = true
					}
				}
				return true
			})
			return false
		})
		c.Check(marshalVar != "" && retOK && !loop, R, "buildObjectKey:encoder", c.P.Pos(d.Decl.Pos()), "ordinary keys are encoded by encoding/json.Marshal and returned without their delimiters", core.F("the key is not (only) encoded by the JSON encoder (json.Marshal of the key: %v, its result returned: %v, own loop: %v)", marshalVar != "", retOK, loop))
	}
}

// decodeOnceRule: a decoded string is never decoded again.
func decodeOnceRule(R string) RuleFunc {
	return func(c *core.Ctx) {
		c.Rule(R, "no call of Bytes.Unquote() is applied to a string that is already decoded (taint: the result of Unquote and every field / parameter that stores it, e.g. ObjectNodeKey.Key and the key parameter of ObjectNode.AddKey): a key such as \"\\\"a\\\"\" (decoded: \"a\" with quotes) would lose its quotes and collide with the key a")
		c.Floor(R, 1)
		t := computeTaint(c)
		n := 0
		for _, cs := range c.P.Calls() {
			if core.FullName(core.Callee(cs.Pkg, cs.Call)) != "(bytes.Bytes).Unquote" {
				continue
			}
			rel := core.Rel(cs.Pkg.PkgPath)
			if !(strings.HasPrefix(rel, "notations/jschema") || strings.HasPrefix(rel, "openapi")) {
				continue
			}
			se, ok := cs.Call.Fun.(*ast.SelectorExpr)
			if !ok {
				continue
			}
			// receiver of the form bytes.NewBytes(x): look at x
			inner := ast.Unparen(se.X)
			if call, ok := inner.(*ast.CallExpr); ok && len(call.Args) == 1 && strings.Contains(core.ExprStr(call.Fun), "NewBytes") {
				n++
				fn := core.DeclName(cs.Pkg, cs.Decl)
				w := t.exprTainted(cs.Pkg, call.Args[0])
				c.Check(w == "", R, core.F("%s:Unquote#%d", fn, n), c.P.Pos(cs.Call.Pos()), "Unquote() of NewBytes("+core.ExprStr(call.Args[0])+") in "+fn, "the argument is already decoded ("+w+"): it is decoded twice")
			}
		}
		if n == 0 {
			c.OK(R, "no-requote", "-", "no Unquote() of a string wrapped again into Bytes")
		}
	}
}

// asciiBlankRule: the language's own byte classes, not Unicode's.
func asciiBlankRule(R string) RuleFunc {
	return func(c *core.Ctx) {
		c.Rule(R, "the scanners, the loader and the byte helpers classify and trim schema text with the module's own byte predicates (IsBlank: SP TAB CR LF; `c < 0x20`), never with Unicode classes: no call of strings.TrimSpace, bytes.TrimSpace, strings.Fields, unicode.IsSpace, unicode.IsControl, unicode.IsDigit, unicode.IsLetter in those packages. Applied to single bytes converted to runes these treat 0x85/0xA0 (continuation bytes of à, Å, х, €) as blanks or controls; applied to strings they strip NBSP and other non-ASCII white space that belongs to a note")
		c.Floor(R, 1)
		banned := map[string]bool{"strings.TrimSpace": true, "bytes.TrimSpace": true, "strings.Fields": true, "bytes.Fields": true, "unicode.IsSpace": true, "unicode.IsControl": true, "unicode.IsDigit": true, "unicode.IsLetter": true, "unicode.IsPrint": true}
		n := 0
		for _, cs := range c.P.Calls() {
			rel := core.Rel(cs.Pkg.PkgPath)
			if !(rel == "notations/jschema/scanner" || rel == "notations/jschema/loader" || rel == "rules/enum" || rel == "formats/json" || rel == "bytes" || rel == "json" || rel == "notations/regex" || rel == "notations/jschema/ischema") {
				continue
			}
			name := core.FullName(core.Callee(cs.Pkg, cs.Call))
			if !banned[name] {
				continue
			}
			n++
			fn := core.DeclName(cs.Pkg, cs.Decl)
			if r, ok := map[string]string{
				"notations/jschema/loader.addORShortcut:strings.TrimSpace": "trims the type names between the pipes of `@a | @b`; the scanner admits only SP and TAB between a name and the pipe (stateTypesShortcutBeforePipe/AfterPipe panic on anything else), so no non-ASCII white space can reach this call",
			}[fn+":"+name]; ok {
				c.Tabled(R, fn+":"+name, c.P.Pos(cs.Call.Pos()), name+" in "+fn, r)
				continue
			}
			c.Bad(R, fn+":"+name, c.P.Pos(cs.Call.Pos()), name+" in "+fn, "a Unicode class is applied to schema text / single bytes: non-ASCII characters next to a blank or at the end of a note are cut, or bytes of multi-byte characters are taken for blanks/controls")
		}
		if n == 0 {
			c.OK(R, "none", "-", "no Unicode-class helper in the scanning/loading packages")
		}
	}
}

// onceCaptureRule: what a once computes does not depend on the arguments of the call that happens to be first.
func onceCaptureRule(R string) RuleFunc {
	return func(c *core.Ctx) {
		c.Rule(R, "a closure handed to ErrOnce.Do / ErrOnceWithValue.Do / sync.Once.Do captures nothing but the receiver of the enclosing method (and package-level state): if it captured a parameter, the cached result would depend on the arguments of whichever call came first (Example() compiling without the recursion check, a later Check() returning that cached verdict)")
		c.Floor(R, 4)
		oc := onceClosures(c)
		var fs []*ssa.Function
		for f := range oc {
			fs = append(fs, f)
		}
		sortFuncs(fs)
		for _, f := range fs {
			if !c.P.FuncInScope(f) || strings.Contains(core.FuncName(f), "internal/sync.") {
				continue
			}
			parent := f.Parent()
			bad := ""
			for _, fv := range f.FreeVars {
				ok := false
				if parent != nil && len(parent.Params) > 0 && parent.Signature.Recv() != nil && fv.Name() == parent.Params[0].Name() {
					ok = true
				}
				// a method value (`once.Do(s.compute)`) is a wrapper that binds its receiver only
				if parent == nil && strings.HasSuffix(f.Name(), "$bound") && len(f.FreeVars) == 1 {
					ok = true
				}
				if !ok {
					bad = fv.Name()
				}
			}
			c.Check(bad == "", R, core.FuncName(f), c.P.Pos(f.Pos()), "once closure "+core.FuncName(f)+" captures only the receiver", "the closure captures `"+bad+"`: the cached result depends on the arguments of the first call")
		}
	}
}

// expParseRule: decimal texts are parsed in base 10.
func expParseRule(R string) RuleFunc {
	return func(c *core.Ctx) {
		c.Rule(R, "no call of strconv.ParseInt / ParseUint in scope uses a base other than the constant 10 (base 0 reads a leading 0 as an octal prefix: the exponent `e010` becomes 8, `e08` is refused), and the exponent of a number is parsed by the module's own Bytes.ParseInt")
		c.Floor(R, 1)
		n := 0
		for _, cs := range c.P.Calls() {
			name := core.FullName(core.Callee(cs.Pkg, cs.Call))
			if name != "strconv.ParseInt" && name != "strconv.ParseUint" || len(cs.Call.Args) != 3 {
				continue
			}
			n++
			fn := core.DeclName(cs.Pkg, cs.Decl)
			v := core.ConstOf(cs.Pkg, cs.Call.Args[1])
			c.Check(v != nil && v.ExactString() == "10", R, core.F("%s:%s#%d", fn, name, n), c.P.Pos(cs.Call.Pos()), name+"(…, "+core.ExprStr(cs.Call.Args[1])+", …) in "+fn, "the base is not the constant 10: decimal texts with leading zeros are read as octal or refused")
		}
		d := c.P.FindDecl("(*json.scanner).setExp")
		if d == nil {
			c.Unresolved(R, "(*json.scanner).setExp")
			return
		}
		uses := false
		ast.Inspect(d.Decl.Body, func(m ast.Node) bool {
			if call, ok := m.(*ast.CallExpr); ok && core.FullName(core.Callee(d.Pkg, call)) == "(bytes.Bytes).ParseInt" {
				uses = true
			}
			return true
		})
		c.Check(uses, R, "setExp:ParseInt", c.P.Pos(d.Decl.Pos()), "setExp parses the exponent with Bytes.ParseInt", "the exponent is parsed by something else than the module's decimal parser (whose rejection causes are checked by C13.parse)")
	}
}

// retStateRule: after a value was closed, the return state pushed for an annotation / comment is the state AFTER the value.
func retStateRule(R string) RuleFunc {
	return func(c *core.Ctx) {
		c.Rule(R, "on the per-byte model of the schema scanner: a transition that closes a value (emits LiteralEnd, TypesShortcutEnd, MixedValueEnd or KeyShortcutEnd) and in the same step opens an annotation or comment (pushes a return state) pushes the state that FOLLOWS the value (a constant state such as stateAfterObjectValue / stateEndTop), not the value's own state and not the unresolved current state: the value must be finished before the return point is taken, otherwise `@T// note` (no blank) returns into the shortcut state after the note and is rejected while `@T // note` is accepted")
		c.Floor(R, 10)
		m := buildScanModel(c, "notations/jschema/scanner")
		n := 0
		for _, name := range m.names {
			seen := map[string]bool{}
			for b := 0; b < 256; b++ {
				for _, p := range m.rows[name][b].paths {
					if p.kind != "return" || len(p.pushes) == 0 {
						continue
					}
					closes := false
					for _, f := range p.finds {
						switch f {
						case "LiteralEnd", "TypesShortcutEnd", "MixedValueEnd", "KeyShortcutEnd":
							closes = true
						}
					}
					if !closes {
						continue
					}
					for _, ps := range p.pushes {
						k := name + ">" + ps
						if seen[k] {
							continue
						}
						seen[k] = true
						n++
						ok := ps != "<dyn>" && ps != name
						c.Check(ok, R, core.F("%s:push(%s)", name, ps), c.P.Pos(m.states[name].Pos()), core.F("state %s closes a value and pushes %s", name, ps), "the return state pushed while closing the value is the value's own (stale) state: after the annotation the scanner is back inside the finished value")
					}
				}
			}
		}
		if n == 0 {
			c.Bad(R, "transitions", "-", "value-closing transitions that push", "undecided: none found")
		}
	}
}

// sameFileRule: every operation of a schema object scans the same text.
func sameFileRule(R string) RuleFunc {
	return func(c *core.Ctx) {
		c.Rule(R, "every scanner the JSchema object creates (load behind Check/GetAST/Example/AddType, computeLen behind Len) is created from the object's own file `s.File`, unmodified: if one entry point scanned a transformed copy (a stripped byte-order mark, a trimmed text) Check() and Len() would disagree on which texts are schemas and offsets would refer to different texts")
		c.Floor(R, 2)
		n := 0
		for _, cs := range c.P.Calls() {
			if core.Rel(cs.Pkg.PkgPath) != "notations/jschema" || cs.Decl == nil || cs.Decl.Recv == nil {
				continue
			}
			if core.FullName(core.Callee(cs.Pkg, cs.Call)) != "notations/jschema/scanner.New" || len(cs.Call.Args) == 0 {
				continue
			}
			fn := core.DeclName(cs.Pkg, cs.Decl)
			if !strings.Contains(fn, "JSchema)") {
				continue
			}
			n++
			arg := core.ExprStr(cs.Call.Args[0])
			recv := ""
			if len(cs.Decl.Recv.List) == 1 && len(cs.Decl.Recv.List[0].Names) == 1 {
				recv = cs.Decl.Recv.List[0].Names[0].Name
			}
			c.Check(arg == recv+".File", R, core.F("%s:scanner.New#%d", fn, n), c.P.Pos(cs.Call.Pos()), "scanner.New("+arg+", …) in "+fn, "the scanner reads something else than the object's own file: this entry point and its siblings no longer scan the same text")
		}
	}
}

// annoEndRule: all the ways an inline annotation ends at a line end behave alike.
func annoEndRule(R string) RuleFunc {
	return func(c *core.Ctx) {
		c.Rule(R, "sibling consistency on the per-byte model of the schema scanner: every state whose LF row closes an inline annotation (emits InlineAnnotationEnd and NewLine) installs the same kind of successor - the guard closure that refuses an annotation start at the beginning of the following line (`... after inline annotation`) - and never pops straight back into the state that was active before the annotation. Otherwise a second `// note` line is accepted after `// {rules}` with LF line ends but refused with CRLF (the second line-end byte moves the popped state on), with a blank line in between, or after `// {rules} - note`")
		c.Floor(R, 3)
		m := buildScanModel(c, "notations/jschema/scanner")
		n := 0
		for _, name := range m.names {
			for _, p := range m.rows[name]['\n'].paths {
				if p.kind != "return" {
					continue
				}
				end, nl := false, false
				for _, f := range p.finds {
					if f == "InlineAnnotationEnd" {
						end = true
					}
					if f == "NewLine" {
						nl = true
					}
				}
				if !end || !nl {
					continue
				}
				n++
				if os.Getenv("JSV_DEBUG_ANNO") != "" {
					fmt.Fprintf(os.Stderr, "ANNO %s finds=%v stores=%v next=%s guard=%s\n", name, p.finds, p.stores, p.next, p.guard)
				}
				ok := strings.Contains(p.next, "$")
				c.Check(ok, R, core.F("%s:LF#%d", name, n), c.P.Pos(m.states[name].Pos()), "state "+name+": the line end that closes an inline annotation installs the next-line guard ("+p.next+")", "this way of ending an inline annotation goes straight back to the interrupted state ("+p.next+"): an annotation on the next line is accepted here but refused after the sibling endings and under CRLF")
				break
			}
		}
		if n == 0 {
			c.Bad(R, "states", "-", "states closing an inline annotation at a line end", "undecided: none found")
		}
		// every path that installs the next-line guard (the line of an inline annotation ends here, with or
		// without a `#` comment behind the note) also leaves the inline-annotation mode: it assigns s.annotation
		k := 0
		for _, name := range m.names {
			for _, p := range m.rows[name]['\n'].paths {
				if p.kind != "return" || !strings.Contains(p.next, "$") {
					continue
				}
				k++
				reset := false
				for _, st := range p.stores {
					if strings.HasPrefix(st, "annotation=") {
						reset = true
					}
				}
				c.Check(reset, R, core.F("%s:LF:mode#%d", name, k), c.P.Pos(m.states[name].Pos()), "state "+name+": the line end that ends an inline annotation line resets the annotation mode", "the scanner stays in inline-annotation mode after this line end (the sibling states reset it): a second line break or a blank line behind the annotation is then refused as `inside inline annotation`, so the verdict and Len() depend on what follows")
			}
		}
		if k < 3 {
			c.Bad(R, "states:mode", "-", "states ending an inline annotation line", core.F("undecided: only %d paths install the next-line guard", k))
		}
		// an inline annotation never survives a line end: in every state of an inline annotation (the states
		// the pinned tree calls stateInlineAnnotation...) a line end either closes the annotation - it
		// emits InlineAnnotationEnd or installs the next-line guard - or is an error. A state that only emits
		// NewLine and carries on makes `//⏎` swallow the following line as annotation text, as `/*` does
		j := 0
		for _, name := range m.names {
			pinned := name
			if f := m.states[name]; f != nil {
				pinned = pinnedBare(f)
			}
			if !strings.HasPrefix(pinned, "stateInlineAnnotation") || pinned == "stateInlineAnnotationStart" {
				continue
			}
			for _, p := range m.rows[name]['\n'].paths {
				if p.kind != "return" {
					continue
				}
				j++
				closes := strings.Contains(p.next, "$")
				for _, f := range p.finds {
					if f == "InlineAnnotationEnd" {
						closes = true
					}
				}
				c.Check(closes, R, core.F("%s:LF:closes#%d", pinned, j), c.P.Pos(m.states[name].Pos()), "state "+pinned+": a line end closes the inline annotation", "the line end is passed over inside an inline annotation ("+strings.Join(p.finds, ",")+" -> "+p.next+"): the next line is read as annotation text, so what follows the schema moves the boundary Len() reports")
			}
		}
		if j < 3 {
			c.Bad(R, "states:closes", "-", "inline-annotation states", core.F("undecided: only %d line-end paths found in states of an inline annotation", j))
		}
	}
}

// crlfRule: a second line-end byte right after a line end changes nothing.
func crlfRule(R string) RuleFunc {
	return func(c *core.Ctx) {
		c.Rule(R, "CRLF / blank-line invariance on the per-byte model of the schema scanner: for every state S and every path on which a line end is accepted and leads to a state T (no error), a second line-end byte in T is accepted too, emits nothing but NewLine and leads to a state whose 256 rows are identical to T's (usually T itself). Together with row(LF) = row(CR) this makes LF, CR and CRLF texts, and texts with an extra blank line, scan alike. Reported per state T; transitions that return through the return-to-step stack (`<pop>`) are not followed here (C14.annoend covers the inline-annotation endings)")
		c.Floor(R, 10)
		m := buildScanModel(c, "notations/jschema/scanner")
		sig := func(name string) string {
			rows, ok := m.rows[name]
			if !ok {
				return "?" + name
			}
			var sb strings.Builder
			for b := 0; b < 256; b++ {
				k := rows[b].key
				// self references are equal up to the state's own name
				k = strings.ReplaceAll(k, "step="+name+" ", "step=<self> ")
				sb.WriteString(k)
				sb.WriteByte('|')
			}
			return sb.String()
		}
		checked := map[string]bool{}
		for _, s := range m.names {
			for _, p := range m.rows[s]['\n'].paths {
				if p.kind != "return" {
					continue
				}
				t := p.next
				if t == "" {
					t = s
				}
				if t == "<pop>" || t == "<dyn>" || checked[t] {
					continue
				}
				if _, ok := m.rows[t]; !ok {
					continue
				}
				checked[t] = true
				bad := ""
				for _, q := range m.rows[t]['\n'].paths {
					if hasAtom(q, "bin:==(1,load:&s.annotation)", true) {
						continue // inside an inline annotation a line end cannot have been accepted just before
					}
					if q.kind != "return" {
						bad = "a second line-end byte is an error: " + clip(q.String(), 120)
						break
					}
					for _, f := range q.finds {
						if f != "NewLine" {
							bad = "a second line-end byte emits " + f
						}
					}
					u := q.next
					if u == "" {
						u = t
					}
					if u == "<pop>" || u == "<dyn>" {
						continue
					}
					if u != t && sig(u) != sig(t) {
						bad = "a second line-end byte moves on to " + u + ", which behaves differently from " + t
					}
				}
				key := "after-newline:" + t
				pos := "-"
				if f, ok := m.states[t]; ok {
					pos = c.P.Pos(f.Pos())
				}
				if bad == "" {
					c.OK(R, key, pos, "state "+t+" (reached by a line end): a second line-end byte is absorbed")
				} else if r, ok := crlfTable[t]; ok {
					c.Tabled(R, key, pos, "state "+t+" (reached by a line end)", r+" ["+bad+"]")
				} else {
					c.Bad(R, key, pos, "state "+t+" (reached by a line end)", bad+": a text with CRLF line ends (or a blank line here) is scanned differently from the same text with LF")
				}
			}
		}
	}
}

var crlfTable = map[string]string{
	"stateEndValue": "dispatcher: it re-dispatches the byte to stateAfterObjectKey / stateAfterObjectValue / stateAfterArrayItem / stateEndTop according to the lexeme stack (each of which absorbs a second line end: their own obligations); its error paths belong to lexeme-stack configurations in which the scanner cannot rest in this state after a line end",
}

// c17empty: a rule text without an array is refused.
func c17empty(c *core.Ctx) {
	const R = "C17.empty"
	c.Rule(R, "Enum.doCompile refuses a text in which no ArrayBegin lexeme was found: a flag is set in `case lexeme.ArrayBegin` and, after the lexeme loop, its negation returns ErrEnumArrayExpected. The grammar product C17.grammar starts from configurations that have seen the opening bracket; the empty and the blank text produce no lexeme at all and would otherwise pass Check() with an empty value list")
	c.Floor(R, 1)
	d := c.P.FindDecl("(*rules/enum.Enum).doCompile")
	if d == nil {
		c.Unresolved(R, "(*rules/enum.Enum).doCompile")
		return
	}
	flag := ""
	ast.Inspect(d.Decl.Body, func(n ast.Node) bool {
		cc, ok := n.(*ast.CaseClause)
		if !ok {
			return true
		}
		for _, e := range cc.List {
			if core.ExprStr(e) == "lexeme.ArrayBegin" {
				for _, st := range cc.Body {
					if as, ok := st.(*ast.AssignStmt); ok && len(as.Lhs) == 1 && core.ExprStr(as.Rhs[0]) == "true" {
						flag = core.ExprStr(as.Lhs[0])
					}
				}
			}
		}
		return true
	})
	refuses := false
	if flag != "" {
		for _, st := range d.Decl.Body.List {
			if ifs, ok := st.(*ast.IfStmt); ok && core.ExprStr(ifs.Cond) == "!"+flag {
				ast.Inspect(ifs.Body, func(m ast.Node) bool {
					if r, ok := m.(*ast.ReturnStmt); ok && len(r.Results) == 1 && strings.Contains(core.ExprStr(r.Results[0]), "ErrEnumArrayExpected") {
						refuses = true
					}
					return true
				})
			}
		}
	}
	c.Check(flag != "" && refuses, R, "doCompile:array-required", c.P.Pos(d.Decl.Pos()), "doCompile returns ErrEnumArrayExpected when no array was found", "a text without any lexeme (empty, blank) is accepted as an enum rule with no values")
}

// eofSiblingRule: the enum-rule scanner closes at end of input only what the schema scanner closes.
func eofSiblingRule(R string) RuleFunc {
	return func(c *core.Ctx) {
		c.Rule(R, "sibling cross-check of the end-of-input tables (decoded from Next with its helpers evaluated in place): every lexeme type the enum-rule scanner closes silently at the end of the input is also closed at the end of the input by the schema scanner - literals and inline `//` annotations end with the text, a multi-line `/*` annotation does not. A list that the rule file accepts (`[1] /* tail`) must not be refused when it is written inline")
		c.Floor(R, 1)
		closers := func(pkgRel, recv string) map[string]bool {
			tab, _, ok := eofOpeners(c, R, pkgRel, recv)
			if !ok {
				c.Bad(R, "eof-table:"+pkgRel, "-", "end-of-input table of "+pkgRel, "undecided: the end-of-input branch could not be decoded")
				return nil
			}
			out := map[string]bool{}
			for o, act := range tab {
				if strings.HasPrefix(act, "emit:") {
					out[o] = true
				}
			}
			return out
		}
		en := closers("rules/enum", "scanner")
		sc := closers("notations/jschema/scanner", "Scanner")
		if en == nil || sc == nil {
			return
		}
		var extra []string
		for k := range en {
			if !sc[k] {
				extra = append(extra, k)
			}
		}
		sortStrings(extra)
		c.Check(len(extra) == 0 && len(en) > 0, R, "processTail:openers", "-", core.F("openers closed at end of input by the enum scanner (%d) are a subset of the schema scanner's (%d)", len(en), len(sc)), "the enum scanner silently closes "+strings.Join(extra, ", ")+" at the end of the input, the schema scanner does not: an unterminated construct is accepted in a rule file and refused inline")
	}
}

// slashEOFRule: the end of the input right after the first slash of an annotation is an error.
// sw sets the mark, clears clear it as their first statement, tail tests it before the lexeme stack.
func slashEOFRule(R, sw string, clears []string, tail string) RuleFunc {
	const flag = "slashPending"
	return func(c *core.Ctx) {
		c.Rule(R, "the scanner remembers that it is between the two characters of an annotation opening ("+sw+" sets slashPending; the states that read the second character clear it as their first statement) and "+tail+" raises ErrUnexpectedEOF when the input ends in that situation - before it looks at the lexeme stack. Otherwise `1 /` (`[1] /`) is accepted as if the slash were absent while `1 /⏎` is refused: a trailing line end changes the verdict, and a text that is not a list with optional annotations is an accepted enum rule")
		c.Floor(R, 2+len(clears))
		chk := func(fn string, pred func(body *ast.BlockStmt) bool, what, why string) {
			d := c.P.FindDecl(fn)
			if d == nil {
				c.Unresolved(R, fn)
				return
			}
			c.Check(pred(d.Decl.Body), R, fn, c.P.Pos(d.Decl.Pos()), what, why)
		}
		sets := func(val string) func(*ast.BlockStmt) bool {
			return func(b *ast.BlockStmt) bool {
				ok := false
				ast.Inspect(b, func(n ast.Node) bool {
					if as, isA := n.(*ast.AssignStmt); isA && len(as.Lhs) == 1 && core.ExprStr(as.Lhs[0]) == "s.slashPending" && core.ExprStr(as.Rhs[0]) == val {
						ok = true
					}
					return true
				})
				return ok
			}
		}
		first := func(b *ast.BlockStmt) bool {
			if len(b.List) == 0 {
				return false
			}
			as, ok := b.List[0].(*ast.AssignStmt)
			return ok && core.ExprStr(as.Lhs[0]) == "s.slashPending" && core.ExprStr(as.Rhs[0]) == "false"
		}
		chk(sw, sets("true"), "the pending slash is marked", "the pending slash is not recorded")
		for _, fn := range clears {
			chk(fn, first, "the mark is cleared first when the second character arrives", "the mark survives the second character: a complete annotation at the end of the text would be refused")
		}
		if td := c.P.FindDecl(tail); td == nil {
			c.Unresolved(R, tail)
		} else {
			pkgRel, recv := "notations/jschema/scanner", "Scanner"
			if strings.Contains(tail, "rules/enum") {
				pkgRel, recv = "rules/enum", "scanner"
			}
			ok, why := eofFlagRefused(c, R, pkgRel, recv, flag)
			c.Check(ok, R, tail, c.P.Pos(td.Decl.Pos()), "the end of the input is refused while a slash is pending (every accepting end-of-input path knows the mark to be clear)", "the end of the input right after `/` is accepted: "+why)
		}
	}
}

// eofFlagRefused decides on the decoded end-of-input table of a scanner's Next (helpers evaluated
// in place) that the end of the input is refused whenever the boolean scanner field `flag` is set:
// every path that accepts the end of the input or emits a closing lexeme carries the fact that the
// flag is false. It does not depend on where in Next (or in which helper) the test is written.
func eofFlagRefused(c *core.Ctx, R, pkgRel, recv, flag string) (bool, string) {
	m := buildScanModel(c, pkgRel)
	eof, ok := extractEOF(c, R, m, pkgRel, recv)
	if !ok {
		return false, "undecided: could not decode the end-of-input branch of Next"
	}
	n := 0
	for _, r := range eof {
		if r.action == "reject" {
			continue
		}
		n++
		guarded := false
		for _, a := range r.atoms {
			if strings.Contains(a.Cond.Key(), "load:&s."+flag) && !strings.Contains(a.Cond.Key(), "(") && !a.Truth {
				guarded = true
			}
		}
		if !guarded {
			var as []string
			for _, a := range r.atoms {
				as = append(as, a.String())
			}
			return false, core.F("the end of the input is accepted (%s) on a path that does not know %s to be false [%s]", r.action, flag, strings.Join(as, " && "))
		}
	}
	if n == 0 {
		return false, "undecided: no accepting end-of-input path decoded"
	}
	return true, ""
}

// hasDisjunct: is `want` the condition or one operand of a chain of ||?
func hasDisjunct(cond ast.Expr, want string) bool {
	cond = ast.Unparen(cond)
	if core.ExprStr(cond) == want {
		return true
	}
	if be, ok := cond.(*ast.BinaryExpr); ok && be.Op == token.LOR {
		return hasDisjunct(be.X, want) || hasDisjunct(be.Y, want)
	}
	return false
}

// blockCommentEOFRule: the end of the input inside a ### comment is an error.
func blockCommentEOFRule(R string) RuleFunc {
	return func(c *core.Ctx) {
		c.Rule(R, "the schema scanner marks an open ### comment (blockCommentOpen set where the step becomes stateMultiLineComment, cleared where that state pops its return state) and Next() raises ErrUnexpectedEOF when the input ends while the mark is set, before it looks at the lexeme stack. A comment is not a lexeme: without the mark `1 ### c` is accepted, and any later ### in the text behind the schema closes the comment, so what follows moves the boundary Len() reports")
		c.Floor(R, 3)
		find := func(fn string) *core.DeclSite {
			d := c.P.FindDecl(fn)
			if d == nil {
				c.Unresolved(R, fn)
			}
			return d
		}
		// set together with the transition into the comment state
		if d := find("notations/jschema/scanner.stateAnyCommentStart"); d != nil {
			ok := false
			ast.Inspect(d.Decl.Body, func(n ast.Node) bool {
				blk, isB := n.(*ast.BlockStmt)
				if !isB {
					return true
				}
				step, set := false, false
				for _, st := range blk.List {
					if as, isA := st.(*ast.AssignStmt); isA && len(as.Lhs) == 1 {
						switch core.ExprStr(as.Lhs[0]) + "=" + core.ExprStr(as.Rhs[0]) {
						case "s.step=stateMultiLineComment":
							step = true
						case "s.blockCommentOpen=true":
							set = true
						}
					}
				}
				if step && set {
					ok = true
				}
				if step && !set {
					ok = false
				}
				return true
			})
			c.Check(ok, R, "stateAnyCommentStart:set", c.P.Pos(d.Decl.Pos()), "entering stateMultiLineComment sets blockCommentOpen", "the comment state is entered without the mark")
		}
		if d := find("notations/jschema/scanner.stateMultiLineComment"); d != nil {
			ok := false
			ast.Inspect(d.Decl.Body, func(n ast.Node) bool {
				blk, isB := n.(*ast.BlockStmt)
				if !isB {
					return true
				}
				pop, clr := false, false
				for _, st := range blk.List {
					if as, isA := st.(*ast.AssignStmt); isA && len(as.Lhs) == 1 {
						l, r := core.ExprStr(as.Lhs[0]), core.ExprStr(as.Rhs[0])
						if l == "s.step" && strings.Contains(r, "returnToStep.Pop()") {
							pop = true
						}
						if l == "s.blockCommentOpen" && r == "false" {
							clr = true
						}
					}
				}
				if pop {
					ok = clr
				}
				return true
			})
			c.Check(ok, R, "stateMultiLineComment:clear", c.P.Pos(d.Decl.Pos()), "leaving the comment state clears blockCommentOpen", "the mark survives the end of the comment: a closed comment at the end of the text would be refused")
		}
		if d := find("(*notations/jschema/scanner.Scanner).Next"); d != nil {
			ok, why := eofFlagRefused(c, R, "notations/jschema/scanner", "Scanner", "blockCommentOpen")
			c.Check(ok, R, "Next:eof", c.P.Pos(d.Decl.Pos()), "Next() refuses the end of the input inside a ### comment (every accepting end-of-input path knows the mark to be clear)", "the end of the input inside a ### comment is accepted: "+why)
		}
	}
}

// onceBody resolves the function handed to a once wrapper to the body that does the work: a
// function literal; a literal that only forwards to one method of the same package (`func() error
// { return s.doCompile() }`); or a method value (`s.doCompile`).
func onceBody(c *core.Ctx, pk *packages.Package, arg ast.Expr) (*ast.BlockStmt, *packages.Package) {
	declOf := func(fun ast.Expr) (*ast.BlockStmt, *packages.Package) {
		var id *ast.Ident
		switch x := ast.Unparen(fun).(type) {
		case *ast.SelectorExpr:
			id = x.Sel
		case *ast.Ident:
			id = x
		}
		if id == nil {
			return nil, nil
		}
		o, _ := pk.TypesInfo.Uses[id].(*types.Func)
		if o == nil {
			return nil, nil
		}
		if d := c.P.FindDecl(core.Rel(o.FullName())); d != nil && d.Decl.Body != nil {
			return d.Decl.Body, d.Pkg
		}
		return nil, nil
	}
	switch x := ast.Unparen(arg).(type) {
	case *ast.FuncLit:
		// a forwarding literal: one return (or expression) statement that is a call
		if len(x.Body.List) == 1 {
			var call *ast.CallExpr
			switch st := x.Body.List[0].(type) {
			case *ast.ReturnStmt:
				if len(st.Results) == 1 {
					call, _ = st.Results[0].(*ast.CallExpr)
				}
			case *ast.ExprStmt:
				call, _ = st.X.(*ast.CallExpr)
			}
			if call != nil {
				if b, bp := declOf(call.Fun); b != nil && core.InScope(bp.PkgPath) {
					return b, bp
				}
			}
		}
		return x.Body, pk
	default:
		if b, bp := declOf(arg); b != nil {
			return b, bp
		}
	}
	return nil, pk
}

// deferredRecoverIn: does the body defer something that calls recover() itself - a literal with
// recover() in it, or a named function whose own body calls recover()?
func deferredRecoverIn(c *core.Ctx, pk *packages.Package, body *ast.BlockStmt) bool {
	hasRecover := func(b ast.Node) bool {
		found := false
		ast.Inspect(b, func(m ast.Node) bool {
			if _, isLit := m.(*ast.FuncLit); isLit && m != b {
				return false // recover() only works in the deferred function itself
			}
			if call, ok := m.(*ast.CallExpr); ok {
				if id, ok := call.Fun.(*ast.Ident); ok && id.Name == "recover" {
					found = true
				}
			}
			return true
		})
		return found
	}
	ok := false
	for _, st := range body.List {
		ds, isD := st.(*ast.DeferStmt)
		if !isD {
			continue
		}
		if lit, isLit := ds.Call.Fun.(*ast.FuncLit); isLit {
			if hasRecover(lit) {
				ok = true
			}
			continue
		}
		var id *ast.Ident
		switch x := ds.Call.Fun.(type) {
		case *ast.Ident:
			id = x
		case *ast.SelectorExpr:
			id = x.Sel
		}
		if id == nil {
			continue
		}
		if o, _ := pk.TypesInfo.Uses[id].(*types.Func); o != nil {
			if d := c.P.FindDecl(core.Rel(o.FullName())); d != nil && d.Decl.Body != nil && hasRecover(d.Decl.Body) {
				ok = true
			}
		}
	}
	return ok
}

// neverReturns: a module function all of whose paths end in a panic (it has no return instruction).
func neverReturns(c *core.Ctx, o types.Object) bool {
	f, ok := o.(*types.Func)
	if !ok || f.Pkg() == nil || !core.InScope(f.Pkg().Path()) {
		return false
	}
	sf := c.P.SSA.FuncValue(f)
	if sf == nil || sf.Blocks == nil {
		return false
	}
	panics := false
	for _, b := range sf.Blocks {
		if len(b.Instrs) == 0 {
			continue
		}
		switch b.Instrs[len(b.Instrs)-1].(type) {
		case *ssa.Return:
			return false
		case *ssa.Panic:
			panics = true
		}
	}
	return panics
}
