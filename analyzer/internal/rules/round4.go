package rules

import (
	"go/ast"
	"go/constant"
	"go/token"
	"strings"

	"golang.org/x/tools/go/ssa"

	"jsverif/internal/core"
)

// compileOrderRule: the link check runs before the recursion check, inside the once, under a recover.
func compileOrderRule(R string) RuleFunc {
	return func(c *core.Ctx) {
		c.Rule(R, "JSchema.Compile: (order) inside the closure of CompileOnce the statements run in the order load, CompileAllOf, AddUnnamedTypes, CheckRootSchema, CheckRecursion - the `type not found` diagnostic of CheckRootSchema must not be pre-empted by the recursion check of a registered type; (recover) the deferred panics.Handle(recover(), err) sits INSIDE that closure, so an error raised as a panic by the compile phase is the closure's result and is stored by the once: with the recover in the outer function the first call reports the error and every later call on the same object returns nil")
		c.Floor(R, 2)
		d := c.P.FindDecl("(*notations/jschema.JSchema).Compile")
		if d == nil {
			c.Unresolved(R, "(*notations/jschema.JSchema).Compile")
			return
		}
		var lit *ast.FuncLit
		ast.Inspect(d.Decl.Body, func(n ast.Node) bool {
			if call, ok := n.(*ast.CallExpr); ok && strings.HasSuffix(core.ExprStr(call.Fun), "CompileOnce.Do") && len(call.Args) == 1 {
				if fl, ok := call.Args[0].(*ast.FuncLit); ok {
					lit = fl
				}
			}
			return true
		})
		if lit == nil {
			c.Bad(R, "Compile:closure", c.P.Pos(d.Decl.Pos()), "closure of CompileOnce.Do", "undecided: no function literal handed to CompileOnce.Do")
			return
		}
		pos := c.P.Pos(lit.Pos())
		order := []string{"load", "CompileAllOf", "AddUnnamedTypes", "CheckRootSchema", "CheckRecursion"}
		at := map[string]token.Pos{}
		recoverInside := false
		ast.Inspect(lit.Body, func(n ast.Node) bool {
			switch x := n.(type) {
			case *ast.CallExpr:
				f := core.ExprStr(x.Fun)
				for _, o := range order {
					if strings.HasSuffix(f, "."+o) {
						if _, seen := at[o]; !seen {
							at[o] = x.Pos()
						}
					}
				}
			case *ast.DeferStmt:
				ast.Inspect(x, func(m ast.Node) bool {
					if id, ok := m.(*ast.Ident); ok && id.Name == "recover" {
						recoverInside = true
					}
					return true
				})
			}
			return true
		})
		okOrder := true
		missing := ""
		for i := range order {
			if _, ok := at[order[i]]; !ok {
				okOrder, missing = false, order[i]
				continue
			}
			if i > 0 && at[order[i-1]] >= at[order[i]] {
				okOrder = false
				missing = order[i-1] + " after " + order[i]
			}
		}
		c.Check(okOrder, R, "Compile:order", pos, "compile steps run in the order "+strings.Join(order, ", "), "the order of the compile steps changed ("+missing+"): a project with a missing type AND a recursive registered type is reported as a recursion instead of `type not found`")
		c.Check(recoverInside, R, "Compile:recover-inside-once", pos, "the recover of the compile phase is deferred inside the once closure", "a panic of the compile phase unwinds through the once: the once is marked done without a stored error, so the second Check()/GetAST()/Example() on the same object answers as if the schema were valid")
	}
}

// addChildOrderRule: the key is registered before the child is appended.
func addChildOrderRule(R string) RuleFunc {
	return func(c *core.Ctx) {
		c.Rule(R, "in every method of ObjectNode that both registers a key (AddKey / keys.Set) and appends a child (addChild / append to children), the key is registered FIRST: the key record takes Index = len(children) at that moment, i.e. the position the child is about to get. Appending first shifts the index of every inherited property by one (Child(key) returns the neighbour or runs out of range)")
		c.Floor(R, 1)
		n := 0
		for _, d := range c.P.FuncDecls() {
			if core.Rel(d.Pkg.PkgPath) != "notations/jschema/ischema" || d.Decl.Body == nil || d.Decl.Recv == nil {
				continue
			}
			fn := core.DeclName(d.Pkg, d.Decl)
			if !strings.Contains(fn, "ObjectNode)") {
				continue
			}
			keyPos, childPos := token.NoPos, token.NoPos
			for _, st := range d.Decl.Body.List { // straight-line bodies only
				if _, isExpr := st.(*ast.ExprStmt); !isExpr {
					continue
				}
				ast.Inspect(st, func(m ast.Node) bool {
					if call, ok := m.(*ast.CallExpr); ok {
						f := core.ExprStr(call.Fun)
						if (strings.HasSuffix(f, ".AddKey") || strings.HasSuffix(f, ".keys.Set")) && keyPos == token.NoPos {
							keyPos = call.Pos()
						}
						if strings.HasSuffix(f, ".addChild") && childPos == token.NoPos {
							childPos = call.Pos()
						}
					}
					return true
				})
			}
			if keyPos == token.NoPos || childPos == token.NoPos {
				continue
			}
			n++
			c.Check(keyPos < childPos, R, fn, c.P.Pos(d.Decl.Pos()), fn+": key registered before the child is appended", "the child is appended before its key is registered: the recorded Index is one too high")
		}
		if n == 0 {
			c.Bad(R, "AddChild", "-", "ObjectNode methods that add key and child", "undecided: none found")
		}
	}
}

// oncePanicRule: a once closure that can panic recovers inside.
func oncePanicRule(R string) RuleFunc {
	return func(c *core.Ctx) {
		c.Rule(R, "every closure handed to ErrOnce.Do / ErrOnceWithValue.Do whose body can reach an explicit panic of the module (the load and compile phases raise their diagnostics as panics) defers a recover itself: sync.Once marks the once as done even when the function panics, so an error that unwinds THROUGH Do is reported to the first caller only and every later call sees the zero result")
		c.Floor(R, 3)
		oc := onceClosures(c)
		sites := c.P.PanicSites()
		var fs []*ssa.Function
		for f := range oc {
			fs = append(fs, f)
		}
		sortFuncs(fs)
		for _, f := range fs {
			if !c.P.FuncInScope(f) || strings.Contains(core.FuncName(f), "internal/sync.") {
				continue
			}
			// explicit panic sites reachable from the closure without passing a function that recovers,
			// other than the assertion panics tabled as unreachable by C02.escape
			may := false
			reach := c.P.Reach([]*ssa.Function{f}, func(g *ssa.Function) bool { return g != f && (hasDeferredRecover(g) || !c.P.FuncInModule(g)) })
			for _, site := range sites {
				if !reach[site.Fn] || (site.Fn != f && hasDeferredRecover(site.Fn)) {
					continue
				}
				name := strings.Split(core.FuncName(site.Fn), "[")[0]
				tabled := false
				for k := range escapeTable {
					if strings.Split(strings.Split(k, "#")[0], "[")[0] == name {
						tabled = true
					}
				}
				if !tabled {
					may = true
				}
			}
			if !may {
				c.OKd(R, core.FuncName(f), c.P.Pos(f.Pos()), "once closure "+core.FuncName(f), "cannot reach an explicit panic")
				continue
			}
			has := hasDeferredRecover(f)
			if r, ok := map[string]string{
				"notations/jschema/ischema.VirtualNodeForAny$1": "builds the singleton node from constant text (`\"\" // {type: \"any\"}`) with one constraint on a fresh node: the panics of AddConstraint/NewType (duplicate rule, invalid type name) cannot fire on these constants",
			}[core.FuncName(f)]; ok && !has {
				c.Tabled(R, core.FuncName(f), c.P.Pos(f.Pos()), "once closure "+core.FuncName(f), r)
				continue
			}
			c.Check(has, R, core.FuncName(f), c.P.Pos(f.Pos()), "once closure "+core.FuncName(f)+" recovers the panics of its body itself", "the closure can panic and has no deferred recover: the diagnostic unwinds through once.Do and is not stored")
		}
	}
}

// ctorOrderRule: options are applied before the first scanner is made.
func ctorOrderRule(R string) RuleFunc {
	return func(c *core.Ctx) {
		c.Rule(R, "formats/json.FromFile applies the options (the loop over oo) BEFORE the first d.rewind(): rewind is what creates the scanner and copies allowTrailingNonSpaceCharacters into it, so with the order swapped the lexeme stream of a fresh document ignores the option while the same document after Len()/Check() honours it")
		c.Floor(R, 1)
		d := c.P.FindDecl("formats/json.FromFile")
		if d == nil {
			c.Unresolved(R, "formats/json.FromFile")
			return
		}
		loop, rew := token.NoPos, token.NoPos
		for _, st := range d.Decl.Body.List {
			if rs, ok := st.(*ast.RangeStmt); ok && core.ExprStr(rs.X) == "oo" {
				loop = rs.Pos()
			}
			if es, ok := st.(*ast.ExprStmt); ok && core.ExprStr(es.X) == "d.rewind()" && rew == token.NoPos {
				rew = es.Pos()
			}
		}
		c.Check(loop != token.NoPos && rew != token.NoPos && loop < rew, R, "FromFile:options-before-rewind", c.P.Pos(d.Decl.Pos()), "FromFile applies the options before the first rewind", "the first scanner is created before the options are applied")
	}
}

// mapStoreRule: Map stores a value only after the callback succeeded.
func mapStoreRule(R string) RuleFunc {
	return func(c *core.Ctx) {
		c.Rule(R, "in Map() of the generated ordered containers the store `m.data[k] = v` follows the test of the callback's error (the value comes from a variable assigned together with err, and an `if err != nil { return err }` stands between the call and the store): a failing callback leaves the entry untouched. Also: the key of MarshalJSON is written with encoding/json, never with a %q verb")
		c.Floor(R, 3)
		n := 0
		for _, d := range c.P.FuncDecls() {
			if d.Decl.Recv == nil || d.Decl.Body == nil {
				continue
			}
			fn := core.DeclName(d.Pkg, d.Decl)
			isContainer := strings.Contains(fn, "RuleASTNodes)") || strings.Contains(fn, "ASTNodes)") || strings.Contains(fn, "ischema.Constraints)")
			if !isContainer {
				continue
			}
			switch d.Decl.Name.Name {
			case "Map":
				n++
				ok := false
				bad := ""
				ast.Inspect(d.Decl.Body, func(m ast.Node) bool {
					blk, isB := m.(*ast.BlockStmt)
					if !isB {
						return true
					}
					errChecked := false
					for _, st := range blk.List {
						if ifs, isIf := st.(*ast.IfStmt); isIf {
							if core.ExprStr(ifs.Cond) == "err != nil" && ifs.Init == nil {
								errChecked = true
							}
							if ifs.Init != nil && strings.Contains(core.ExprStr0(ifs.Init), ".data[") {
								bad = "the store is part of the if-initialiser: it happens before the error is tested"
							}
						}
						if as, isA := st.(*ast.AssignStmt); isA && len(as.Lhs) >= 1 {
							for _, l := range as.Lhs {
								if ix, isI := l.(*ast.IndexExpr); isI && strings.HasSuffix(core.ExprStr(ix.X), ".data") {
									if errChecked {
										ok = true
									} else {
										bad = "store to data[k] before `if err != nil`"
									}
								}
							}
						}
					}
					return true
				})
				c.Check(ok && bad == "", R, fn, c.P.Pos(d.Decl.Pos()), fn+" stores the new value only after the callback's error was tested", "a failing callback still overwrites the entry: "+bad)
			case "MarshalJSON":
				n++
				bad := ""
				ast.Inspect(d.Decl.Body, func(m ast.Node) bool {
					if call, ok := m.(*ast.CallExpr); ok && strings.HasPrefix(core.FullName(core.Callee(d.Pkg, call)), "fmt.") {
						for _, a := range call.Args {
							if v := core.ConstOf(d.Pkg, a); v != nil && v.Kind() == constant.String && (strings.Contains(constant.StringVal(v), "%q") || strings.Contains(constant.StringVal(v), "%#v")) {
								bad = core.ExprStr(a)
							}
						}
					}
					return true
				})
				c.Check(bad == "", R, fn+":key", c.P.Pos(d.Decl.Pos()), fn+" writes keys with the JSON encoder", "keys are written with the Go verb "+bad+": control characters, DEL and invalid UTF-8 are escaped the Go way and the output is not JSON")
			}
		}
		if n == 0 {
			c.Bad(R, "containers", "-", "Map/MarshalJSON of the generated containers", "undecided: none found")
		}
	}
}

func sortFuncs(fs []*ssa.Function) {
	for i := 1; i < len(fs); i++ {
		for j := i; j > 0 && fs[j].String() < fs[j-1].String(); j-- {
			fs[j], fs[j-1] = fs[j-1], fs[j]
		}
	}
}

// hasDeferredRecover: the function defers a closure / function that calls recover().
func hasDeferredRecover(f *ssa.Function) bool {
	for _, b := range f.Blocks {
		for _, in := range b.Instrs {
			d, ok := in.(*ssa.Defer)
			if !ok {
				continue
			}
			var fn *ssa.Function
			if cl, ok := d.Call.Value.(*ssa.MakeClosure); ok {
				fn, _ = cl.Fn.(*ssa.Function)
			} else if g, ok := d.Call.Value.(*ssa.Function); ok {
				fn = g
			}
			if fn == nil {
				continue
			}
			for _, bb := range fn.Blocks {
				for _, i2 := range bb.Instrs {
					if call, ok := i2.(*ssa.Call); ok {
						if bi, ok := call.Call.Value.(*ssa.Builtin); ok && bi.Name() == "recover" {
							return true
						}
					}
				}
			}
		}
	}
	return false
}
