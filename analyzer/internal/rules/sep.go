package rules

import (
	"go/ast"
	"go/token"
	"go/types"
	"strings"

	"jsverif/internal/core"
)

// sepRule: separator discipline of hand-written JSON emitting loops.
// A loop that writes a ',' into a bytes.Buffer must either
//
//	(a) write it at the top of the body under `index != 0` / a `first` flag with no
//	    skip (continue) before the flag is updated, or
//	(b) write it at the bottom under `index+1 != len` with NO path that skips an
//	    element (continue) at all.
func sepRule(R string, pkgPrefixes []string, floor int) RuleFunc {
	return func(c *core.Ctx) {
		c.Rule(R, "in every loop that writes a ',' separator into a JSON buffer: if an element can be skipped (a `continue` in the body) the separator decision must not be a function of the loop index and the length (it would leave a dangling or doubled comma); index-based separators are accepted only in loops without a skip path, in the forms `i != 0` at the top or `i+1 != len` at the bottom")
		c.Floor(R, floor)
		for _, d := range c.P.FuncDecls() {
			rel := core.Rel(d.Pkg.PkgPath)
			inScope := false
			for _, p := range pkgPrefixes {
				if strings.HasPrefix(rel, p) {
					inScope = true
				}
			}
			if !inScope {
				continue
			}
			fn := core.DeclName(d.Pkg, d.Decl)
			n := 0
			ast.Inspect(d.Decl.Body, func(nd ast.Node) bool {
				rs, ok := nd.(*ast.RangeStmt)
				if !ok {
					return true
				}
				// comma writes inside this loop (not nested loops)
				var commaIfs []*ast.IfStmt
				hasContinue := false
				ast.Inspect(rs.Body, func(m ast.Node) bool {
					switch x := m.(type) {
					case *ast.RangeStmt, *ast.ForStmt, *ast.FuncLit:
						return false
					case *ast.BranchStmt:
						if x.Tok == token.CONTINUE {
							hasContinue = true
						}
					case *ast.IfStmt:
						if writesComma(d.Pkg, x.Body) {
							commaIfs = append(commaIfs, x)
						}
					}
					return true
				})
				if len(commaIfs) == 0 {
					return true
				}
				n++
				key := core.F("%s:loop#%d", fn, n)
				pos := c.P.Pos(rs.Pos())
				for _, ifs := range commaIfs {
					cond := core.ExprStr(ifs.Cond)
					idx := ""
					if rs.Key != nil {
						idx = core.ExprStr(rs.Key)
					}
					indexBased := false
					if idx != "" && idx != "_" {
						ast.Inspect(ifs.Cond, func(m ast.Node) bool {
							if id, ok := m.(*ast.Ident); ok && id.Name == idx {
								indexBased = true
							}
							return true
						})
					}
					switch {
					case indexBased && hasContinue:
						c.Bad(R, key, pos, "separator `if "+cond+"` in a loop of "+fn+" that can skip elements", "the comma is decided from the loop index/length but an element can be skipped with `continue`: the output gets a dangling comma (`{\"x\":1,}`) when the skipped element is the last one")
					case indexBased:
						okForm := (strings.Contains(cond, "!= 0") || strings.Contains(cond, "> 0")) && ifs == firstStmt(rs.Body) ||
							(strings.Contains(cond, "+1 !=") || strings.Contains(cond, "+ 1 !=") || strings.Contains(cond, "-1")) && ifs == lastStmt(rs.Body)
						c.Check(okForm, R, key, pos, "index-based separator `if "+cond+"` in "+fn+" (no skip path)", "separator test is not `i != 0` at the top nor `i+1 != len` at the bottom of the loop body")
					default:
						// flag based: the flag must be a local bool variable
						c.OKd(R, key, pos, "flag-based separator `if "+cond+"` in "+fn, "separator decided by a flag that is updated only when an element is written")
					}
				}
				return true
			})
		}
	}
}

func firstStmt(b *ast.BlockStmt) ast.Stmt {
	if len(b.List) == 0 {
		return nil
	}
	return b.List[0]
}

func lastStmt(b *ast.BlockStmt) ast.Stmt {
	if len(b.List) == 0 {
		return nil
	}
	return b.List[len(b.List)-1]
}

func writesComma(pk *packagesPackage, b *ast.BlockStmt) bool {
	found := false
	for _, st := range b.List {
		es, ok := st.(*ast.ExprStmt)
		if !ok {
			continue
		}
		call, ok := es.X.(*ast.CallExpr)
		if !ok || len(call.Args) != 1 {
			continue
		}
		name := core.FullName(core.Callee(pk, call))
		if !strings.HasPrefix(name, "(*bytes.Buffer).Write") {
			continue
		}
		if v := core.ConstOf(pk, call.Args[0]); v != nil {
			s := v.ExactString()
			if s == "44" || s == `","` {
				found = true
			}
		}
	}
	_ = types.Typ
	return found
}
