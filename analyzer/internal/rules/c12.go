package rules

import (
	"fmt"
	"go/ast"
	"go/constant"
	"go/token"
	"go/types"
	"os"
	"sort"
	"strings"

	"golang.org/x/tools/go/ssa"

	"jsverif/internal/absint"
	"jsverif/internal/core"
)

func init() {
	Register("C12", "Decides, on tables extracted from formats/json by specialising every scanner state function for each of the 256 byte values: (struct) the scanner, modelled as the pushdown system <step function, unfinished-literal flag, lexeme stack, return stack> with its end-of-input table and pair tables also extracted from the source, accepts exactly the RFC 8259 grammar - lock-step product with a reference pushdown recogniser over all bytes and all configurations up to nesting depth 3 (the scanner only observes len==0, len==1 and the two topmost stack entries, which is itself checked, so deeper nesting adds no new behaviour), with and without the trailing-characters option; (pairs) every closing lexeme a state can emit has exactly one opening partner; (eofcons) a literal state accepts end of input iff it accepts a terminator; (deleg) the re-dispatch relation between states is acyclic for every byte. (len) the arithmetic of Length(): candidate = End()+1 after a lexeme, = End() at the EndTop lexeme, then exactly SP/TAB/LF/CR dropped. Does NOT decide lexeme spans or tree equality with an independent decoder.",
		c12struct, c12pairs, c12len, rewindRule("C12.rewind"), ctorOrderRule("C12.ctor"), asciiBlankRule("C12.asciiblank"), stackRule("C12.stack"), func(c *core.Ctx) { c11onceAs(c, "C12.once") }, noLimitRule("C12.nolimit"))
}

// ---------------- extracted driver tables ----------------

type lexTables struct {
	names     map[int64]string
	byName    map[string]int64
	opening   map[string]bool
	nonScalar map[[2]string]bool
	scalar    map[[2]string]bool
}

func extractLexTables(c *core.Ctx, R, pkgRel string) *lexTables {
	t := &lexTables{names: lexemeNames(c), byName: map[string]int64{}, opening: map[string]bool{}, nonScalar: map[[2]string]bool{}, scalar: map[[2]string]bool{}}
	for v, n := range t.names {
		t.byName[n] = v
	}
	in := absint.New(absint.Config{InModule: c.P.FuncInModule, Inline: func(f *ssa.Function) bool { return false }})
	isOpening := c.P.Method("lexeme", "LexEventType", "IsOpening")
	nsp := c.P.Func(pkgRel, "isNonScalarPair")
	sp := c.P.Func(pkgRel, "isScalarPair")
	if isOpening == nil || nsp == nil || sp == nil {
		c.Unresolved(R, "lexeme.LexEventType.IsOpening / "+pkgRel+".isNonScalarPair / isScalarPair")
		return nil
	}
	boolOf := func(f *ssa.Function, args ...int64) (bool, bool) {
		var as []absint.Val
		for _, a := range args {
			as = append(as, absint.MkInt(a))
		}
		outs := in.Run(f, as, nil)
		if len(outs) != 1 || outs[0].Kind != "return" {
			return false, false
		}
		cst, ok := outs[0].Val.(absint.Const)
		if !ok || cst.V == nil || cst.V.Kind() != constant.Bool {
			return false, false
		}
		return constant.BoolVal(cst.V), true
	}
	for v, n := range t.names {
		b, ok := boolOf(isOpening, v)
		if !ok {
			c.Bad(R, "lexeme.IsOpening:"+n, c.P.Pos(isOpening.Pos()), "IsOpening("+n+")", "undecided: not a constant function of its argument")
			return nil
		}
		t.opening[n] = b
	}
	// the pair predicates as tables: a chain of comparisons is folded on SSA; a lookup in a constant
	// table of the package is evaluated on the typed AST
	astBool := func(name string, a1, a2 int64) (bool, bool) {
		d := c.P.FindDecl(pkgRel + "." + name)
		if d == nil || d.Decl.Body == nil || d.Decl.Type.Params == nil {
			return false, false
		}
		e := &miniEval{pk: d.Pkg, env: map[string]int64{"nil": 0}, ctx: c}
		vals := []int64{a1, a2}
		k := 0
		for _, fl := range d.Decl.Type.Params.List {
			for _, nm := range fl.Names {
				if k < 2 {
					e.env[nm.Name] = vals[k]
				}
				k++
			}
		}
		st, rets := e.run(d.Decl.Body.List)
		if e.unknown != "" || st != miniReturn || len(rets) != 1 {
			return false, false
		}
		return rets[0] != 0, true
	}
	for v1, n1 := range t.names {
		for v2, n2 := range t.names {
			b1, ok1 := boolOf(nsp, v1, v2)
			b2, ok2 := boolOf(sp, v1, v2)
			if !ok1 {
				b1, ok1 = astBool("isNonScalarPair", v1, v2)
			}
			if !ok2 {
				b2, ok2 = astBool("isScalarPair", v1, v2)
			}
			if !ok1 || !ok2 {
				c.Bad(R, pkgRel+".pairs:"+n1+"/"+n2, c.P.Pos(sp.Pos()), "pair tables", "undecided: pair predicates are not constant functions of their arguments")
				return nil
			}
			if b1 {
				t.nonScalar[[2]string{n1, n2}] = true
			}
			if b2 {
				t.scalar[[2]string{n1, n2}] = true
			}
		}
	}
	return t
}

// ---------------- implementation-side configuration ----------------

type implCfg struct {
	step       string
	unfinished bool
	stack      []string          // lexeme type names
	rts        []string          // returnToStep
	saw        bool              // at least one lexeme was emitted
	done       bool              // EndTop emitted: the document stops reading
	fields     map[string]string // other scanner fields with constant values (exact strings)
}

func (c implCfg) key() string {
	var fs []string
	for k, v := range c.fields {
		fs = append(fs, k+"="+v)
	}
	sort.Strings(fs)
	return core.F("%s|%v|%s|%s|%v|%v|%s", c.step, c.unfinished, strings.Join(c.stack, ","), strings.Join(c.rts, ","), c.saw, c.done, strings.Join(fs, ";"))
}

type implModel struct {
	m         *scanModel
	lt        *lexTables
	trailing  bool
	flags     map[string]constant.Value // option fields fixed for a run
	zero      map[string]constant.Value // zero values of the scanner's basic-typed fields
	assume    map[string]bool           // atom substring -> assumed truth
	eof       []eofRule
	obs       map[string]bool // kinds of stack observations seen
	undecided string
}

type eofRule struct {
	atoms  []absint.Atom
	action string // "accept", "emit:<Lex>", "reject"
	// queued: lexemes the end-of-input branch puts into the pending list (found(...)) before it
	// returns; the following calls of Next emit them after the returned one
	queued []string
}

func (im *implModel) leaf(cfg *implCfg, atEOF bool) func(absint.Sym) constant.Value {
	var leaf func(s absint.Sym) constant.Value
	leaf = func(s absint.Sym) constant.Value {
		switch s.Op {
		case "call":
			switch {
			case strings.Contains(s.Name, "Stack[") && strings.Contains(s.Name, ").Len"):
				if len(s.Args) == 1 {
					switch s.Args[0].Key() {
					case "load:&s.stack", "&s.stack":
						im.obs["len"] = true
						return constant.MakeInt64(int64(len(cfg.stack)))
					case "load:&s.returnToStep", "&s.returnToStep":
						return constant.MakeInt64(int64(len(cfg.rts)))
					}
				}
			case strings.HasSuffix(s.Name, "LexEvent).Type"):
				if len(s.Args) == 1 {
					if inner, ok := s.Args[0].(absint.Sym); ok && inner.Op == "call" && len(inner.Args) >= 1 && (inner.Args[0].Key() == "load:&s.stack" || inner.Args[0].Key() == "&s.stack") {
						if strings.Contains(inner.Name, ").Peek") {
							im.obs["top"] = true
							if len(cfg.stack) == 0 {
								return nil
							}
							return constant.MakeInt64(im.lt.byName[cfg.stack[len(cfg.stack)-1]])
						}
						if strings.Contains(inner.Name, ").Get") && len(inner.Args) == 2 {
							idx := absint.EvalWith(inner.Args[1], leaf)
							if idx == nil {
								return nil
							}
							i, _ := constant.Int64Val(idx)
							if i == int64(len(cfg.stack))-2 {
								im.obs["second"] = true
							} else {
								im.obs[core.F("get(%d of %d)", i, len(cfg.stack))] = true
							}
							if i < 0 || int(i) >= len(cfg.stack) {
								return nil
							}
							return constant.MakeInt64(im.lt.byName[cfg.stack[i]])
						}
					}
				}
			}
		case "load":
			if strings.HasPrefix(s.Name, "&s.") {
				f := strings.TrimPrefix(s.Name, "&s.")
				if v, ok := im.flags[f]; ok {
					return v
				}
				if v, ok := cfg.fields[f]; ok {
					return parseConst(v)
				}
				if f != "allowTrailingNonSpaceCharacters" && f != "unfinishedLiteral" && f != "index" && f != "dataSize" {
					if z, ok := im.zero[f]; ok {
						return z
					}
				}
			}
			switch s.Name {
			case "&s.allowTrailingNonSpaceCharacters":
				return constant.MakeBool(im.trailing)
			case "&s.unfinishedLiteral":
				return constant.MakeBool(cfg.unfinished)
			case "&s.index":
				if atEOF {
					return constant.MakeInt64(0)
				}
			case "&s.dataSize":
				if atEOF {
					return constant.MakeInt64(0)
				}
			}
		case "len":
			if len(s.Args) == 1 && s.Args[0].Key() == "load:&s.finds" {
				return constant.MakeInt64(0)
			}
		}
		return nil
	}
	return leaf
}

// selectPath picks the unique path of a row whose guard holds in cfg.
func (im *implModel) selectPath(paths []scanPath, cfg *implCfg) (*scanPath, string) {
	var sel *scanPath
	for i := range paths {
		p := &paths[i]
		ok := true
		for _, a := range p.atoms {
			v := absint.EvalWith(a.Cond, im.leaf(cfg, false))
			if v == nil {
				for sub, truth := range im.assume {
					if strings.Contains(a.Cond.Key(), sub) {
						v = constant.MakeBool(truth)
					}
				}
			}
			if v == nil || v.Kind() != constant.Bool {
				return nil, "guard `" + a.Cond.Key() + "` is not determined by <stack, flags>"
			}
			if constant.BoolVal(v) != a.Truth {
				ok = false
				break
			}
		}
		if ok {
			if sel != nil {
				return nil, "two paths match one configuration"
			}
			sel = p
		}
	}
	if sel == nil {
		return nil, "no path matches the configuration"
	}
	return sel, ""
}

// applyFinds applies emitted lexemes to the stack. Returns false when the
// scanner would panic (closing lexeme without its opening partner).
func (im *implModel) applyFinds(cfg *implCfg, finds []string) bool {
	for _, f := range finds {
		cfg.saw = true
		if f == "NewLine" {
			continue
		}
		if f == "EndTop" {
			cfg.done = true
			return true
		}
		if im.lt.opening[f] {
			cfg.stack = append(cfg.stack, f)
			continue
		}
		if len(cfg.stack) == 0 {
			return false
		}
		top := cfg.stack[len(cfg.stack)-1]
		cfg.stack = cfg.stack[:len(cfg.stack)-1]
		if !im.lt.nonScalar[[2]string{top, f}] && !im.lt.scalar[[2]string{top, f}] {
			return false
		}
	}
	return true
}

// stepByte: returns the successor configuration, ok=false if the input is rejected.
func (im *implModel) stepByte(cfg implCfg, b int) (implCfg, bool, string) {
	rows := im.m.rows[cfg.step]
	if rows == nil {
		return cfg, false, "unknown state " + cfg.step
	}
	p, why := im.selectPath(rows[b].paths, &cfg)
	if p == nil {
		return cfg, false, why
	}
	if p.kind == "abort" {
		return cfg, false, "aborted path: " + p.errCtx
	}
	if p.kind == "panic" || p.kind == "error" {
		return cfg, false, ""
	}
	n := implCfg{step: cfg.step, unfinished: cfg.unfinished, saw: cfg.saw}
	n.stack = append([]string(nil), cfg.stack...)
	n.rts = append([]string(nil), cfg.rts...)
	if len(cfg.fields) > 0 || len(p.fieldStores) > 0 {
		n.fields = map[string]string{}
		for k, v := range cfg.fields {
			n.fields[k] = v
		}
		for _, fsr := range p.fieldStores {
			if cst, ok := fsr.val.(absint.Const); ok {
				if cst.V == nil {
					n.fields[fsr.name] = "nil"
				} else {
					n.fields[fsr.name] = cst.V.ExactString()
				}
			} else {
				n.fields[fsr.name] = "?"
			}
		}
	}
	for _, ps := range p.pushes {
		n.rts = append(n.rts, ps)
	}
	switch p.next {
	case "":
	case "<pop>":
		if len(n.rts) == 0 {
			return cfg, false, ""
		}
		n.step = n.rts[len(n.rts)-1]
		n.rts = n.rts[:len(n.rts)-1]
	case "<dyn>":
		return cfg, false, "next state is not a constant"
	default:
		n.step = p.next
	}
	switch p.unfinished {
	case "true":
		n.unfinished = true
	case "false":
		n.unfinished = false
	case "":
	default:
		return cfg, false, "unfinishedLiteral set to a non-constant"
	}
	if !im.applyFinds(&n, p.finds) {
		return n, false, ""
	}
	return n, true, ""
}

// acceptsEOF runs the end-of-input procedure extracted from Next().
func (im *implModel) acceptsEOF(cfg implCfg) (bool, string) {
	if cfg.done {
		return true, ""
	}
	for i := 0; i < 8; i++ {
		var act string
		var queued []string
		n := 0
		for _, r := range im.eof {
			ok := true
			for _, a := range r.atoms {
				v := absint.EvalWith(a.Cond, im.leaf(&cfg, true))
				if v == nil || v.Kind() != constant.Bool {
					return false, "end-of-input guard `" + a.Cond.Key() + "` not determined"
				}
				if constant.BoolVal(v) != a.Truth {
					ok = false
					break
				}
			}
			if ok {
				act = r.action
				queued = r.queued
				n++
			}
		}
		if n != 1 {
			return false, core.F("%d end-of-input rules match", n)
		}
		switch {
		case act == "accept":
			return cfg.saw, ""
		case act == "reject":
			return false, ""
		case strings.HasPrefix(act, "emit:"):
			if !im.applyFinds(&cfg, append([]string{strings.TrimPrefix(act, "emit:")}, queued...)) {
				return false, ""
			}
		}
	}
	return false, "end-of-input procedure does not terminate"
}

// extractEOF decodes the end-of-input part of (*scanner).Next.
func extractEOF(c *core.Ctx, R string, m *scanModel, pkgRel, recv string) ([]eofRule, bool) {
	next := c.P.Method(pkgRel, recv, "Next")
	if next == nil {
		c.Unresolved(R, "(*"+pkgRel+"."+recv+").Next")
		return nil, false
	}
	// helpers of the same scanner that take part in the end-of-input decision are evaluated in place:
	// every method of the scanner type except the ones the decoder reads as events, and every
	// helper that never returns (it only builds the end-of-input error and panics)
	inlined := map[string]bool{"Next": true}
	recvOf := func(f *ssa.Function) string {
		if f.Signature.Recv() == nil {
			return ""
		}
		t := f.Signature.Recv().Type()
		if p, ok := t.(*types.Pointer); ok {
			t = p.Elem()
		}
		if n, ok := t.(*types.Named); ok {
			return n.Obj().Name()
		}
		return ""
	}
	in := absint.New(absint.Config{InModule: c.P.FuncInModule, Inline: func(f *ssa.Function) bool {
		if f.Blocks == nil || !c.P.FuncInScope(f) {
			return false
		}
		if recvOf(f) == recv && f.Pkg == next.Pkg {
			switch pinnedBare(f) {
			case "processingFoundLexeme", "found", "shiftFound", "Next":
				return false
			}
			// state functions (called through s.step) are not part of Next
			ps := f.Signature.Params()
			if ps.Len() > 0 {
				if b, ok := ps.At(ps.Len() - 1).Type().Underlying().(*types.Basic); ok && b.Kind() == types.Uint8 {
					return false
				}
			}
			inlined[f.Name()] = true
			return true
		}
		for _, b := range f.Blocks {
			if len(b.Instrs) > 0 {
				if _, isRet := b.Instrs[len(b.Instrs)-1].(*ssa.Return); isRet {
					return false
				}
			}
		}
		return true
	}, InlineLoops: true, SelfBases: map[string]bool{"s": true}})
	outs := in.Run(next, []absint.Val{absint.Ptr{Base: "s"}}, nil)
	// lexemes a case of the end-of-input switch puts into the pending list (s.found(K)) before it
	// returns processingFoundLexeme(L): the following calls of Next emit them after L
	queuedByEmit := map[string][]string{}
	var inlinedNames []string
	for n := range inlined {
		inlinedNames = append(inlinedNames, n)
	}
	sort.Strings(inlinedNames)
	for _, fnName := range inlinedNames {
		d := c.P.FindDecl("(*" + pkgRel + "." + recv + ")." + fnName)
		if d == nil {
			continue
		}
		ast.Inspect(d.Decl.Body, func(n ast.Node) bool {
			cc, ok := n.(*ast.CaseClause)
			if !ok {
				return true
			}
			var pending []string
			for _, st := range cc.Body {
				switch x := st.(type) {
				case *ast.ExprStmt:
					if call, ok := x.X.(*ast.CallExpr); ok && strings.HasSuffix(core.ExprStr(call.Fun), ".found") && len(call.Args) == 1 {
						pending = append(pending, core.ConstName(d.Pkg, call.Args[0]))
					}
				case *ast.ReturnStmt:
					if len(x.Results) >= 1 && len(pending) > 0 {
						if call, ok := x.Results[0].(*ast.CallExpr); ok && strings.HasSuffix(core.ExprStr(call.Fun), ".processingFoundLexeme") && len(call.Args) == 1 {
							queuedByEmit[core.ConstName(d.Pkg, call.Args[0])] = pending
						} else if nm := core.ConstName(d.Pkg, x.Results[0]); nm != "" {
							// a helper that picks the closing lexeme: `s.found(K); return L`
							queuedByEmit[nm] = pending
						}
					}
				}
			}
			return true
		})
	}
	var rules []eofRule
	if os.Getenv("JSV_DEBUG_EOF") != "" {
		for _, o := range outs {
			var as []string
			for _, a := range o.St.Atoms {
				as = append(as, a.String())
			}
			fmt.Fprintf(os.Stderr, "EOF-OUT %s %s: kind=%s val=%v atoms=%s\n", pkgRel, recv, o.Kind, o.Val, strings.Join(as, " && "))
		}
	}
	for _, o := range outs {
		// keep only paths taken when no lexeme is pending and the input is exhausted
		keep := true
		var atoms []absint.Atom
		for _, a := range o.St.Atoms {
			k := a.Cond.Key()
			switch {
			case strings.Contains(k, "len(load:&s.finds)"):
				// `len(finds) != 0` must be false
				v := absint.EvalWith(a.Cond, func(s absint.Sym) constant.Value {
					if s.Op == "len" {
						return constant.MakeInt64(0)
					}
					return nil
				})
				if v == nil || constant.BoolVal(v) != a.Truth {
					keep = false
				}
			case strings.Contains(k, "load:&s.index") && strings.Contains(k, "load:&s.dataSize"):
				v := absint.EvalWith(a.Cond, func(s absint.Sym) constant.Value {
					if s.Op == "load" {
						return constant.MakeInt64(0)
					}
					return nil
				})
				if v == nil || constant.BoolVal(v) != a.Truth {
					keep = false
				}
			default:
				atoms = append(atoms, a)
			}
		}
		if !keep || o.Kind == "abort" {
			continue
		}
		r := eofRule{atoms: atoms}

		switch o.Kind {
		case "panic":
			r.action = "reject"
		case "return":
			t, ok := o.Val.(absint.Tuple)
			if !ok || len(t.Vs) != 2 {
				return nil, false
			}
			// (LexEvent, bool) for the panicking scanners, (LexEvent, error) for the enum scanner
			second := t.Vs[1]
			if cst, ok := second.(absint.Const); ok && cst.V != nil && cst.V.Kind() == constant.Bool && !constant.BoolVal(cst.V) {
				r.action = "accept"
			} else if s, ok := t.Vs[0].(absint.Sym); ok && s.Op == "call" && strings.HasSuffix(s.Name, ").processingFoundLexeme") {
				r.action = "emit:" + m.lexName(s.Args[len(s.Args)-1])
			} else if s, ok := second.(absint.Sym); ok && s.Op == "load" && strings.Contains(s.Name, "errEOS") {
				r.action = "accept"
			} else if sx, ok := second.(absint.Sym); ok && sx.Op == "extract" {
				// (lex, err) := processingFoundLexeme(K) forwarded
				if inner, ok := sx.Args[0].(absint.Sym); ok && strings.HasSuffix(inner.Name, ").processingFoundLexeme") {
					r.action = "emit:" + m.lexName(inner.Args[len(inner.Args)-1])
				} else {
					r.action = "reject"
				}
			} else {
				r.action = "reject"
			}
		}
		if strings.HasPrefix(r.action, "emit:") {
			r.queued = queuedByEmit[strings.TrimPrefix(r.action, "emit:")]
		}
		rules = append(rules, r)
	}
	return rules, len(rules) > 0
}

// ---------------- RFC 8259 reference pushdown recogniser ----------------

const (
	jV = iota // expecting a value
	jArrStart
	jObjStart
	jObjKey // after ',' inside an object
	jStr
	jStrEsc
	jStrU1
	jStrU2
	jStrU3
	jStrU4
	jAfterKey
	jAfter
	jNumMinus
	jNumZero
	jNumInt
	jNumDot
	jNumFrac
	jNumExp
	jNumExpSign
	jNumExpNum
	jLit // inside true/false/null; lit holds the remaining text
	jAcceptAll
)

type refCfg struct {
	st    int
	stack string // 'O' / 'A'
	inKey bool
	lit   string
}

func (r refCfg) key() string { return core.F("%d|%s|%v|%s", r.st, r.stack, r.inKey, r.lit) }

func isWS(b byte) bool    { return b == ' ' || b == '\t' || b == '\n' || b == '\r' }
func isDigit(b byte) bool { return b >= '0' && b <= '9' }
func isHex(b byte) bool {
	return isDigit(b) || (b >= 'a' && b <= 'f') || (b >= 'A' && b <= 'F')
}

func refValueStart(r refCfg, b byte) (refCfg, bool) {
	switch {
	case b == '{':
		r.stack += "O"
		r.st = jObjStart
	case b == '[':
		r.stack += "A"
		r.st = jArrStart
	case b == '"':
		r.st, r.inKey = jStr, false
	case b == '-':
		r.st = jNumMinus
	case b == '0':
		r.st = jNumZero
	case b >= '1' && b <= '9':
		r.st = jNumInt
	case b == 't':
		r.st, r.lit = jLit, "rue"
	case b == 'f':
		r.st, r.lit = jLit, "alse"
	case b == 'n':
		r.st, r.lit = jLit, "ull"
	default:
		return r, false
	}
	return r, true
}

func refAfter(r refCfg, b byte, trailing bool) (refCfg, bool) {
	r.st = jAfter
	if isWS(b) {
		return r, true
	}
	if r.stack == "" {
		if trailing {
			r.st = jAcceptAll
			return r, true
		}
		return r, false
	}
	top := r.stack[len(r.stack)-1]
	switch {
	case top == 'O' && b == ',':
		r.st = jObjKey
	case top == 'O' && b == '}':
		r.stack = r.stack[:len(r.stack)-1]
	case top == 'A' && b == ',':
		r.st = jV
	case top == 'A' && b == ']':
		r.stack = r.stack[:len(r.stack)-1]
	default:
		return r, false
	}
	return r, true
}

func refStep(r refCfg, b byte, trailing bool) (refCfg, bool) {
	switch r.st {
	case jAcceptAll:
		return r, true
	case jV:
		if isWS(b) {
			return r, true
		}
		return refValueStart(r, b)
	case jArrStart:
		if isWS(b) {
			return r, true
		}
		if b == ']' {
			r.stack = r.stack[:len(r.stack)-1]
			r.st = jAfter
			return r, true
		}
		return refValueStart(r, b)
	case jObjStart:
		if isWS(b) {
			return r, true
		}
		if b == '}' {
			r.stack = r.stack[:len(r.stack)-1]
			r.st = jAfter
			return r, true
		}
		if b == '"' {
			r.st, r.inKey = jStr, true
			return r, true
		}
		return r, false
	case jObjKey:
		if isWS(b) {
			return r, true
		}
		if b == '"' {
			r.st, r.inKey = jStr, true
			return r, true
		}
		return r, false
	case jStr:
		switch {
		case b == '"':
			if r.inKey {
				r.st = jAfterKey
			} else {
				r.st = jAfter
			}
			r.inKey = false
		case b == '\\':
			r.st = jStrEsc
		case b < 0x20:
			return r, false
		}
		return r, true
	case jStrEsc:
		switch b {
		case 'b', 'f', 'n', 'r', 't', '\\', '/', '"':
			r.st = jStr
			return r, true
		case 'u':
			r.st = jStrU1
			return r, true
		}
		return r, false
	case jStrU1, jStrU2, jStrU3:
		if isHex(b) {
			r.st++
			return r, true
		}
		return r, false
	case jStrU4:
		if isHex(b) {
			r.st = jStr
			return r, true
		}
		return r, false
	case jAfterKey:
		if isWS(b) {
			return r, true
		}
		if b == ':' {
			r.st = jV
			return r, true
		}
		return r, false
	case jAfter:
		return refAfter(r, b, trailing)
	case jNumMinus:
		if b == '0' {
			r.st = jNumZero
			return r, true
		}
		if b >= '1' && b <= '9' {
			r.st = jNumInt
			return r, true
		}
		return r, false
	case jNumZero, jNumInt:
		switch {
		case r.st == jNumInt && isDigit(b):
			return r, true
		case b == '.':
			r.st = jNumDot
			return r, true
		case b == 'e' || b == 'E':
			r.st = jNumExp
			return r, true
		}
		return refAfter(r, b, trailing)
	case jNumDot:
		if isDigit(b) {
			r.st = jNumFrac
			return r, true
		}
		return r, false
	case jNumFrac:
		if isDigit(b) {
			return r, true
		}
		if b == 'e' || b == 'E' {
			r.st = jNumExp
			return r, true
		}
		return refAfter(r, b, trailing)
	case jNumExp:
		if b == '+' || b == '-' {
			r.st = jNumExpSign
			return r, true
		}
		if isDigit(b) {
			r.st = jNumExpNum
			return r, true
		}
		return r, false
	case jNumExpSign:
		if isDigit(b) {
			r.st = jNumExpNum
			return r, true
		}
		return r, false
	case jNumExpNum:
		if isDigit(b) {
			return r, true
		}
		return refAfter(r, b, trailing)
	case jLit:
		if len(r.lit) > 0 && b == r.lit[0] {
			r.lit = r.lit[1:]
			if r.lit == "" {
				r.st = jAfter
			}
			return r, true
		}
		return r, false
	}
	return r, false
}

func refAcceptsEOF(r refCfg) bool {
	if r.st == jAcceptAll {
		return true
	}
	if r.stack != "" {
		return false
	}
	switch r.st {
	case jAfter, jNumZero, jNumInt, jNumFrac, jNumExpNum:
		return true
	}
	return false
}

// ---------------- product exploration ----------------

const maxNesting = 3

func c12struct(c *core.Ctx) {
	const R = "C12.struct"
	c.Rule(R, "formats/json scanner ≡ RFC 8259: lock-step product of the pushdown system extracted from the source (per-byte summaries of all state functions, end-of-input table from Next, pair tables, IsOpening) with a reference JSON recogniser, over all 256 byte values and all configurations up to nesting depth 3, once without and once with the trailing-characters option; every configuration where one side rejects a byte or accepts end of input and the other does not is reported with a shortest witness; stack observations are checked to be limited to len==0, len==1 and the two topmost entries (so deeper nesting cannot behave differently)")
	c.Floor(R, 36)
	m := buildScanModel(c, "formats/json")
	if len(m.names) < 30 {
		c.Unresolved(R, core.F("state functions of formats/json (found %d)", len(m.names)))
		return
	}
	for _, u := range m.undecided {
		c.Bad(R, "undecided:"+u, "-", "summary of "+u, "undecided: the state function could not be summarised for this byte (loop or unsupported construct): the scanner model is incomplete")
	}
	lt := extractLexTables(c, R, "formats/json")
	if lt == nil {
		return
	}
	eof, ok := extractEOF(c, R, m, "formats/json", "scanner")
	if !ok {
		c.Bad(R, "eof-table", "-", "end-of-input table of (*scanner).Next", "undecided: could not decode the end-of-input branch of Next")
		return
	}
	// initial state from newScanner
	initial := ""
	if ns := c.P.Func("formats/json", "newScanner"); ns != nil {
		in := absint.New(absint.Config{InModule: c.P.FuncInModule, Inline: func(f *ssa.Function) bool { return f.Pkg == ns.Pkg && sameResult(f, ns) }})
		for _, o := range in.Run(ns, []absint.Val{absint.Param("file")}, nil) {
			if p, ok := o.Val.(absint.Ptr); ok {
				if v, ok := o.St.Mem(absint.Ptr{Base: p.Base, Path: ".step"}.Key()); ok {
					initial = stateNameOf(v)
				}
			}
		}
	}
	if m.states[initial] == nil {
		c.Bad(R, "initial-state", "-", "initial step of newScanner", "undecided: newScanner does not store a state function in step")
		return
	}
	totalStates, totalTrans := 0, 0
	reachedStates := map[string]bool{}
	obsAll := map[string]bool{}
	for _, trailing := range []bool{false, true} {
		im := &implModel{m: m, lt: lt, trailing: trailing, eof: eof, obs: obsAll}
		type item struct {
			ic implCfg
			rc refCfg
			w  string
		}
		start := item{implCfg{step: initial}, refCfg{st: jV}, ""}
		seen := map[string]bool{start.ic.key() + "#" + start.rc.key(): true}
		queue := []item{start}
		reported := map[string]bool{}
		report := func(key, pos, what, detail string) {
			key = core.F("%s:trailing=%v", key, trailing)
			if !reported[key] {
				reported[key] = true
				c.Bad(R, key, pos, what, detail)
			}
		}
		for len(queue) > 0 {
			it := queue[0]
			queue = queue[1:]
			totalStates++
			reachedStates[it.ic.step] = true
			fpos := c.P.Pos(m.states[it.ic.step].Pos())
			// end of input
			ia, why := im.acceptsEOF(it.ic)
			if why != "" {
				report("eof-undecided:"+it.ic.step, fpos, "end of input in "+it.ic.step, "undecided: "+why)
			} else if ra := refAcceptsEOF(it.rc); ia != ra {
				verdict := "accepts"
				if !ia {
					verdict = "rejects"
				}
				report(core.F("eof:%s/unfinished=%v/stack=%s", it.ic.step, it.ic.unfinished, strings.Join(it.ic.stack, ",")), fpos,
					core.F("end of input in state %s (unfinishedLiteral=%v, stack %v)", it.ic.step, it.ic.unfinished, it.ic.stack),
					core.F("the JSON scanner %s the document %q but RFC 8259 says the opposite", verdict, it.w))
			}
			if it.ic.done || it.rc.st == jAcceptAll {
				continue
			}
			for b := 0; b < 256; b++ {
				totalTrans++
				ni, iok, why := im.stepByte(it.ic, b)
				nr, rok := refStep(it.rc, byte(b), trailing)
				if why != "" {
					report(core.F("undecided:%s:%q", it.ic.step, rune(b)), fpos, core.F("state %s on byte %q", it.ic.step, rune(b)), "undecided: "+why)
					continue
				}
				if iok != rok {
					verdict := "accepts"
					if !iok {
						verdict = "rejects"
					}
					report(core.F("step:%s:%q/stack=%s", it.ic.step, rune(b), strings.Join(topN(it.ic.stack, 2), ",")), fpos,
						core.F("state %s on byte %q (top of stack %v)", it.ic.step, rune(b), topN(it.ic.stack, 2)),
						core.F("the JSON scanner %s byte %q after %q but RFC 8259 says the opposite", verdict, string(rune(b)), it.w))
					continue
				}
				if !iok {
					continue
				}
				if len(nr.stack) > maxNesting {
					continue
				}
				if len(ni.rts) > maxRTS || len(ni.stack) > 4*maxNesting+8 {
					report(core.F("growth:%s:%q", it.ic.step, rune(b)), fpos, core.F("state %s on byte %q", it.ic.step, rune(b)),
						core.F("a stack of the scanner grows without bound on input whose nesting is bounded (return stack %d, lexeme stack %d after %q): a push without a matching pop", len(ni.rts), len(ni.stack), it.w+string(rune(b))))
					continue
				}
				k := ni.key() + "#" + nr.key()
				if !seen[k] {
					seen[k] = true
					queue = append(queue, item{ni, nr, it.w + string(rune(b))})
				}
			}
		}
		if len(reported) == 0 {
			c.OKd(R, core.F("equivalent:trailing=%v", trailing), "-", core.F("JSON scanner ≡ RFC 8259 reference (trailing characters allowed: %v)", trailing), core.F("%d product configurations explored", len(seen)))
		}
	}
	// observation discipline
	var obs []string
	for o := range obsAll {
		obs = append(obs, o)
	}
	sort.Strings(obs)
	okObs := true
	for _, o := range obs {
		if o != "len" && o != "top" && o != "second" {
			okObs = false
		}
	}
	c.Check(okObs, R, "stack-observations", "-", "stack observations made by the state functions: "+strings.Join(obs, ", "), "a state function inspects the stack deeper than its two topmost entries: the bounded-depth exploration no longer covers all behaviours")
	for _, n := range m.names {
		if reachedStates[n] {
			c.OK(R, "state:"+n, c.P.Pos(m.states[n].Pos()), "state function "+n+": 256 byte rows extracted, reachable in the product")
		} else {
			c.Note(R, "state:"+n, c.P.Pos(m.states[n].Pos()), "state function "+n+" not reachable from the initial state", "")
		}
	}
	c.Extra["C12.struct.product_states"] = totalStates
	c.Extra["C12.struct.transitions"] = totalTrans
	c.Extra["exhaustive"] = true
}

func topN(s []string, n int) []string {
	if len(s) <= n {
		return s
	}
	return s[len(s)-n:]
}

func c12pairs(c *core.Ctx) {
	const R = "C12.pairs"
	c.Rule(R, "every closing lexeme type a formats/json state function can emit has exactly one opening partner in the pair tables (isScalarPair ∪ isNonScalarPair), that partner is classified as opening by IsOpening, and no opening type is the partner of two closers")
	c.Floor(R, 5)
	m := buildScanModel(c, "formats/json")
	lt := extractLexTables(c, R, "formats/json")
	if lt == nil {
		return
	}
	emitted := map[string]bool{}
	for _, n := range m.names {
		for b := 0; b < 256; b++ {
			for _, p := range m.rows[n][b].paths {
				for _, f := range p.finds {
					emitted[f] = true
				}
			}
		}
	}
	var fs []string
	for f := range emitted {
		fs = append(fs, f)
	}
	sort.Strings(fs)
	sp := c.P.Func("formats/json", "isScalarPair")
	pos := c.P.Pos(sp.Pos())
	for _, f := range fs {
		if lt.opening[f] || f == "EndTop" || f == "NewLine" {
			c.OK(R, "emitted:"+f, pos, "emitted lexeme "+f+" is an opening / standalone lexeme")
			continue
		}
		var partners []string
		for pr := range lt.scalar {
			if pr[1] == f {
				partners = append(partners, pr[0])
			}
		}
		for pr := range lt.nonScalar {
			if pr[1] == f {
				partners = append(partners, pr[0])
			}
		}
		sort.Strings(partners)
		ok := len(partners) == 1 && lt.opening[partners[0]]
		c.Check(ok, R, "emitted:"+f, pos, core.F("closing lexeme %s has partners %v", f, partners), "a closing lexeme must have exactly one opening partner, else processFoundLexemeClosingTag panics with ErrIncorrectEndingOfTheLexicalEvent or pairs it with the wrong opener")
	}
}

func parseConst(s string) constant.Value {
	switch s {
	case "true":
		return constant.MakeBool(true)
	case "false":
		return constant.MakeBool(false)
	case "?", "nil":
		return nil
	}
	if v := constant.MakeFromLiteral(s, token.INT, 0); v.Kind() == constant.Int {
		return v
	}
	return nil
}
