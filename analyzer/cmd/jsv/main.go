// jsv: static-analysis checks of jsight-schema-core against /verif/properties.jsonl.
package main

import (
	"encoding/json"
	"flag"
	"fmt"
	"os"
	"runtime/debug"
	"strconv"
	"strings"
	"time"

	"jsverif/internal/core"
	"jsverif/internal/rules"
)

func main() {
	if len(os.Args) < 2 {
		usage()
	}
	switch os.Args[1] {
	case "check":
		os.Exit(cmdCheck(os.Args[2:]))
	case "all":
		os.Exit(cmdAll(os.Args[2:]))
	case "explain":
		os.Exit(cmdExplain(os.Args[2:]))
	case "dump":
		os.Exit(cmdDump(os.Args[2:]))
	default:
		usage()
	}
}

func usage() {
	fmt.Fprintln(os.Stderr, "usage: jsv check --property Cxx [--tier quick|thorough] | jsv all | jsv explain <violation.json> | jsv dump <what> [args]")
	os.Exit(2)
}

func seed() int64 {
	s, _ := strconv.ParseInt(os.Getenv("VERIF_SEED"), 10, 64)
	return s
}

func cmdCheck(args []string) int {
	fs := flag.NewFlagSet("check", flag.ExitOnError)
	prop := fs.String("property", "", "property id")
	tier := fs.String("tier", "", "quick|thorough")
	repo := fs.String("repo", "/repo", "repository")
	verif := fs.String("verif", "/verif", "verif dir")
	verbose := fs.Bool("v", false, "list all obligations")
	fs.Parse(args)
	if *tier == "" {
		*tier = os.Getenv("VERIF_TIER")
	}
	if *tier != "thorough" {
		*tier = "quick"
	}
	return runProps([]string{*prop}, *tier, *repo, *verif, *verbose)
}

func cmdAll(args []string) int {
	fs := flag.NewFlagSet("all", flag.ExitOnError)
	tier := fs.String("tier", "quick", "quick|thorough")
	repo := fs.String("repo", "/repo", "repository")
	verif := fs.String("verif", "/verif", "verif dir")
	verbose := fs.Bool("v", false, "list all obligations")
	only := fs.String("only", "", "comma separated properties")
	fs.Parse(args)
	props := rules.Properties()
	if *only != "" {
		props = strings.Split(*only, ",")
	}
	return runProps(props, *tier, *repo, *verif, *verbose)
}

func runProps(props []string, tier, repo, verif string, verbose bool) (code int) {
	start := time.Now()
	fail := func(prop, msg string) int {
		// analysis failure: never silently pass
		path := verif + "/evidence/violations/" + prop + "-analysis-failure.json"
		os.MkdirAll(verif+"/evidence/violations", 0o755)
		b, _ := json.MarshalIndent(map[string]any{"property": prop, "analysis_failure": msg}, "", " ")
		os.WriteFile(path, b, 0o644)
		fmt.Printf("analysis failure for %s: %s\n", prop, msg)
		fmt.Printf("VIOLATION property=%s replay=%s\n", prop, path)
		return 1
	}
	p, err := core.Load(repo, "")
	if err != nil {
		c := 0
		for _, pr := range props {
			c = fail(pr, "load: "+err.Error())
		}
		return c
	}
	var p386 *core.Program
	if tier == "thorough" {
		p386, err = core.Load(repo, "386")
		if err != nil {
			for _, pr := range props {
				code = fail(pr, "load GOARCH=386: "+err.Error())
			}
			return code
		}
	}
	known, err := core.LoadKnown(verif + "/known_findings.json")
	if err != nil {
		for _, pr := range props {
			code = fail(pr, "known_findings.json: "+err.Error())
		}
		return code
	}
	fmt.Printf("loaded %d packages, %d files, %d functions, %d SSA instructions in %.1fs\n", len(p.Pkgs), p.NFiles, p.NFuncs, p.NInstr, time.Since(start).Seconds())
	for _, pr := range props {
		func() {
			t0 := time.Now()
			defer func() {
				if r := recover(); r != nil {
					code = fail(pr, fmt.Sprintf("analysis panic: %v\n%s", r, debug.Stack()))
				}
			}()
			c := core.NewCtx(p, pr, tier)
			c.P386 = p386
			if !rules.Run(c) {
				code = fail(pr, "no rules registered for property")
				return
			}
			if p386 != nil {
				// thorough: the same rules on the GOARCH=386 build (32-bit uint/int, build-tagged files);
				// obligations that agree with the primary run are counted once, differing ones are added
				c2 := core.NewCtx(p386, pr, tier)
				rules.Run(c2)
				prim := map[string]core.Status{}
				for _, o := range c.Obs {
					prim[o.Key] = o.Status
				}
				same, diff := 0, 0
				for _, o := range c2.Obs {
					if st, ok := prim[o.Key]; ok && st == o.Status {
						same++
						continue
					}
					diff++
					o.Key += "[GOARCH=386]"
					o.What += " (GOARCH=386)"
					c.Obs = append(c.Obs, o)
				}
				c.Extra["goarch_386"] = map[string]int{"obligations_agreeing_with_amd64": same, "obligations_differing": diff}
			}
			res := c.Finish(verif, known, seed(), t0)
			if verbose {
				for _, o := range c.Obs {
					fmt.Printf("  %-9s %-14s %s  %s  %s %s\n", o.Status, o.Rule, o.Pos, o.What, o.Key, o.Detail)
				}
			}
			for _, l := range res.Lines {
				fmt.Println(l)
			}
			nOK := 0
			for _, o := range c.Obs {
				if o.Status == core.OK || o.Status == core.Tabled {
					nOK++
				}
			}
			fmt.Printf("%s: %d obligations discharged, %d known findings, %d violations (%.1fs)\n", pr, nOK, res.Known, res.Violations, time.Since(t0).Seconds())
			if res.Violations > 0 {
				code = 1
			}
		}()
	}
	return code
}

func cmdExplain(args []string) int {
	if len(args) < 1 {
		usage()
	}
	b, err := os.ReadFile(args[0])
	if err != nil {
		fmt.Println(err)
		return 2
	}
	var v struct {
		Property   string          `json:"property"`
		Obligation core.Obligation `json:"obligation"`
		RuleText   string          `json:"rule_text"`
		Failure    string          `json:"analysis_failure"`
	}
	json.Unmarshal(b, &v)
	if v.Failure != "" {
		fmt.Printf("property %s: analysis failure:\n%s\n", v.Property, v.Failure)
		return 1
	}
	fmt.Printf("property   %s\nrule       %s\n           %s\nconstruct  %s\nat         %s\nkey        %s\nfinding    %s\n", v.Property, v.Obligation.Rule, v.RuleText, v.Obligation.What, v.Obligation.Pos, v.Obligation.Key, v.Obligation.Detail)
	fmt.Printf("re-run: bin/jsv check --property %s -v | grep -F '%s'\n", v.Property, v.Obligation.Key)
	return 1
}
