package main

import "fmt"

func cmdDump(args []string) int {
	fmt.Println("no dumps yet")
	return 0
}
