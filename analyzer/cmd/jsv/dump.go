package main

import (
	"bytes"
	"encoding/json"
	"fmt"
	"go/ast"
	"go/printer"
	"go/types"

	"golang.org/x/tools/go/packages"
	"golang.org/x/tools/go/ssa"

	"jsverif/internal/absint"
	"jsverif/internal/core"
	"jsverif/internal/rules"
)

func cmdDump(args []string) int {
	if len(args) == 0 {
		fmt.Println("usage: jsv dump <what> [args]")
		return 2
	}
	p, err := core.Load("/repo", "")
	if err != nil {
		fmt.Println(err)
		return 1
	}
	switch args[0] {
	case "anchors":
		// the reference for renamed functions: fingerprints of every function of the tree
		b, _ := json.MarshalIndent(p.Fingerprints(), "", " ")
		fmt.Println(string(b))
	case "fields":
		b, _ := json.MarshalIndent(p.StructFingerprints(), "", " ")
		fmt.Println(string(b))
	case "mapranges":
		p.ForEachNode(func(pk *packages.Package, file *ast.File, stack []ast.Node, n ast.Node) bool {
			if rs, ok := n.(*ast.RangeStmt); ok {
				if _, ok := core.TypeOf(pk, rs.X).Underlying().(*types.Map); ok {
					var b bytes.Buffer
					printer.Fprint(&b, p.Fset, rs)
					fmt.Printf("== %s\n%s\n", p.Pos(rs.Pos()), b.String())
				}
			}
			return true
		})
	case "scan":
		only := ""
		if len(args) > 2 {
			only = args[2]
		}
		rules.DumpScanModel(p, args[1], only)
	case "paths":
		inl := map[string]bool{}
		for _, a := range args[2:] {
			inl[a] = true
		}
		in := absint.New(absint.Config{InModule: p.FuncInModule, MaxDepth: 6, Inline: func(f *ssa.Function) bool { return inl[core.FuncName(f)] }})
		for _, f := range p.ScopeFuncs() {
			if core.FuncName(f) != args[1] {
				continue
			}
			var as []absint.Val
			for _, pr := range f.Params {
				if _, ok := pr.Type().Underlying().(*types.Pointer); ok {
					as = append(as, absint.Ptr{Base: pr.Name()})
				} else {
					as = append(as, absint.Param(pr.Name()))
				}
			}
			outs := in.Run(f, as, nil)
			fmt.Printf("== %s: %d paths\n", args[1], len(outs))
			for _, o := range outs {
				fmt.Println("  ", absint.PathString(o))
			}
		}
	case "ssa":
		for _, f := range p.ScopeFuncs() {
			if core.FuncName(f) == args[1] {
				f.WriteTo(os_stdout{})
			}
		}
	}
	return 0
}

type os_stdout struct{}

func (os_stdout) Write(b []byte) (int, error) { fmt.Print(string(b)); return len(b), nil }
